"""C16: the recommended time step (real `compute_advection_diffusion_stable_timestep`) and the
maximum principle of the explicit diffusion step (real diffusion time-step closures)."""
from fractions import Fraction as Fr

from svx.contract import and_, not_, unit

from .c_eulerian import gshape
from .spec import AXES, reader, sh

MOD = "sopht.simulator.flow.passive_transport_flow_simulators"


@unit("stable_timestep", props=("C16",), configs=[dict(dim=2), dict(dim=3)], kernels=False,
      assumes=("np.amax contract: result >= every cell and attained at some cell (svx.symnp)",
               "np.finfo(real_t).eps is a constant 0 < eps <= 2^-23",
               "viscosity > 0 (nu = 0 relies on IEEE x/0 = inf: bounded native case only)"))
def stable_timestep(K, dim):
    import sys

    from svx import ctx, symnp
    from svx.sym import Sym
    fn = K.repo(f"{MOD}:compute_advection_diffusion_stable_timestep")
    mod = sys.modules[MOD]
    shape = gshape(K, dim)
    u = K.field("velocity_field", (dim,) + shape)
    mag = K.field("velocity_magnitude_field", shape)
    dx, cfl, nu = K.real("dx", pos=True), K.real("cfl", pos=True), K.real("kinematic_viscosity", pos=True)
    prefac = K.real("dt_prefac", pos=True)
    K.requires(prefac <= 1)
    if K.mode == "native":
        import numpy as np
        dt1 = float(fn(velocity_field=u, velocity_magnitude_field=mag, grid_dim=dim, dx=dx, cfl=cfl,
                       kinematic_viscosity=nu, real_t=K.real_t))
        eps = float(np.finfo(K.real_t).eps)
        c = K.cell(shape)
    else:
        old_np = mod.np
        symnp.AMAX_LOG.clear()
        mod.np = symnp.SymNp()
        try:
            dt1 = fn(velocity_field=u, velocity_magnitude_field=mag, grid_dim=dim, dx=dx, cfl=cfl,
                     kinematic_viscosity=nu, real_t=symnp.SymReal)
        finally:
            mod.np = old_np
        eps = Sym.R("machine_eps")
        c = K.cell(shape)
        # instantiate the universally quantified half of np.amax's contract at the Skolem cell
        for f in symnp.amax_bounds(lambda l: c):
            K.requires(f)
    dt = dt1 * prefac  # what the three simulators' compute_stable_timestep return (checked in c_simulators)
    speed = sum(abs(K.old(u, (i,) + c)) for i in range(dim))
    K.ensures("positive_and_finite", dt > 0)
    K.ensures_eq("linear_in_prefactor", dt, prefac * dt1)
    K.ensures("advective_limit", dt * speed / dx <= cfl)
    # "does not exceed 0.9/(2 dim) beyond rounding": relative slack 16 eps (DESIGN section 5 reading)
    K.ensures("diffusive_limit", nu * dt / dx**2 <= Fr(9, 10) / (2 * dim) * (1 + 16 * eps))
    K.unchanged("frame_velocity", u)


@unit("diffusion_step_maximum_principle", props=("C16",),
      configs=[dict(dim=2, field_type="scalar"), dict(dim=3, field_type="scalar"), dict(dim=3, field_type="vector")])
def diffusion_step_maximum_principle(K, dim, field_type):
    shape = gshape(K, dim)
    kw = dict(field_type=field_type) if dim == 3 else {}
    k = K.gen(f"gen_diffusion_timestep_euler_forward_pyst_kernel_{dim}d", **kw)
    lam = K.real("nu_dt_by_dx2", nonneg=True)
    K.requires(lam <= Fr(9, 10) / (2 * dim))  # any dt meeting the diffusion limit
    vec = field_type == "vector"
    f = K.field("vector_field" if vec else "field", ((3,) if vec else ()) + shape)
    flux = K.field("diffusion_flux", shape)
    if vec:
        K.run(k, vector_field=f, diffusion_flux=flux, nu_dt_by_dx2=lam)
    else:
        K.run(k, field=f, diffusion_flux=flux, nu_dt_by_dx2=lam)
    c = K.cell(shape)
    inside = K.interior(c, shape, 1)
    lo, hi = K.real("lo"), K.real("hi")
    for pre in ([(i,) for i in range(3)] if vec else [()]):
        r = reader(K, f, pre)
        nbrs = [r(sh(c, ax, s)) for ax in AXES[dim] for s in (1, -1)]
        new = K.value(f, pre + c)
        tag = f"{list(pre)}"
        for _ in K.case(inside):
            w0 = 1 - 2 * dim * lam
            K.ensures_eq("convex_average_of_neighbours" + tag, new, w0 * r(c) + lam * sum(nbrs))
            K.ensures("weights_nonnegative_and_sum_to_one" + tag, and_(w0 >= 0, lam >= 0, w0 + 2 * dim * lam == 1))
            # hence no new extrema: bounded by the extrema of the stencil values
            K.requires(and_(*[and_(v >= lo, v <= hi) for v in nbrs + [r(c)]]))
            K.ensures("no_new_extrema" + tag, and_(new >= lo, new <= hi))
        for _ in K.case(not_(inside)):
            K.ensures_eq("ring_unchanged" + tag, new, r(c))
