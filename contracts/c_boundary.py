"""Boundary-zone damping: C13 closed form (arbitrary coordinate fields) and the C19 clauses under
the simulator's own affine coordinate field.  Position classes (front zone / middle / back zone per
axis) are a finite complete partition of all cells; inside a class every region-membership test of
the real closure is decided, so the obligations are polynomial identities in the cell values and
the sine factors."""
import itertools
from fractions import Fraction as Fr

from svx.contract import and_, not_, or_, sin_, unit

from .spec import AXES

AXI = {"x": -1, "y": -2, "z": -3}


def _pen_cfgs():
    out = []
    for w in (0, 1, 2, 3, 4):
        out.append(dict(dim=2, field_type="scalar", width=w))
        out.append(dict(dim=3, field_type="scalar", width=w))
        out.append(dict(dim=3, field_type="vector", width=w))
    return out


def _setup(K, dim, field_type, width, affine):
    import math

    from svx.sym import Sym
    w = width
    shape = tuple(K.ext(n, lo=max(1, 2 * w)) for n in ("nz", "ny", "nx")[3 - dim:])  # admissible: n >= 2*width
    dx = K.real("dx", pos=True)
    axes = AXES[dim]
    array_axes = list(reversed(axes))  # array axis order (z,) y, x
    if affine:  # the simulator's own coordinate field: grid[c] = origin + (index + 1/2)*dx
        org = {ax: K.real(f"origin_{ax}") for ax in axes}
        grids = {ax: K.field(f"{ax}_grid_field", shape,
                             init=(lambda idx, a=a, ax=ax: org[ax] + (idx[a] + Fr(1, 2)) * dx))
                 for a, ax in enumerate(array_axes)}
    else:
        grids = {ax: K.field(f"{ax}_grid_field", shape) for ax in axes}
    kw = {f"{ax}_grid_field": grids[ax] for ax in axes}
    if dim == 3:
        kw["field_type"] = field_type
    k = K.gen(f"gen_penalise_field_boundary_pyst_kernel_{dim}d", width=w, dx=dx, **kw)
    vec = field_type == "vector"
    f = K.field("vector_field" if vec else "field", ((3,) if vec else ()) + shape)
    if vec:
        K.run(k, vector_field=f)
    else:
        K.run(k, field=f)
    pres = [(i,) for i in range(3)] if vec else [()]
    pi = Sym.pi() if K.mode == "sym" else math.pi
    P = (pi / 2) / (w * dx) if w else None
    return shape, dx, axes, array_axes, grids, f, pres, P


def _classes(K, c, shape, w, dim):
    for cls in itertools.product(("front", "mid", "back"), repeat=dim):
        guard = []
        for a in range(dim):
            n, i = shape[a], c[a]
            guard.append(i < w if cls[a] == "front" else i >= n - w if cls[a] == "back" else and_(i >= w, i < n - w))
        yield cls, "".join(k[0] for k in cls), and_(*guard)


@unit("penalise_field_boundary", props=("C13",), configs=_pen_cfgs())
def penalise_field_boundary(K, dim, field_type, width):
    """closed form for ARBITRARY coordinate-field contents.  The real closure damps along x, then y,
    then z, each time first broadcasting the inner-edge layer into the zone; hence the factor of an
    axis is evaluated with the axes processed later clamped to their inner edge."""
    w = width
    shape, dx, axes, array_axes, grids, f, pres, P = _setup(K, dim, field_type, width, affine=False)
    for ax in axes:
        K.unchanged(f"frame_{ax}_grid", grids[ax])
    c = K.cell(shape)
    if w == 0:
        for pre in pres:
            K.ensures_eq(f"identity{list(pre)}", K.value(f, pre + c), K.old(f, pre + c))
        return
    zero = tuple(0 for _ in shape)

    def end_cell(ax):  # the cell whose coordinate the generator captured as <ax>_grid_field_end
        e = list(zero)
        e[AXI[ax]] = shape[AXI[ax]] - 1
        return tuple(e)

    for cls, tag, guard in _classes(K, c, shape, w, dim):
        for _ in K.case(guard):
            src = list(c)
            for a in range(dim):
                if cls[a] == "front":
                    src[a] = w - 1
                elif cls[a] == "back":
                    src[a] = shape[a] - w
            factor = 1
            for a, ax in enumerate(array_axes):
                if cls[a] == "mid":
                    continue
                # axes processed after `ax` (x first, then y, then z) = array axes before a
                at = tuple(src[b] if b < a else c[b] for b in range(dim))
                g = grids[ax]
                if cls[a] == "front":
                    factor = factor * sin_(P * (K.old(g, at) - K.old(g, zero)))
                else:
                    factor = factor * sin_(P * (K.old(g, end_cell(ax)) - K.old(g, at)))
            for pre in pres:
                K.ensures_eq(f"closed_form[{tag}]{list(pre)}", K.value(f, pre + c),
                             K.old(f, pre + tuple(src)) * factor)


@unit("penalise_field_boundary_damping", props=("C19",), configs=[c for c in _pen_cfgs() if c["width"] > 0])
def penalise_field_boundary_damping(K, dim, field_type, width):
    """C19 clauses with the simulator's own affine coordinate field."""
    w = width
    shape, dx, axes, array_axes, grids, f, pres, P = _setup(K, dim, field_type, width, affine=True)
    c = K.cell(shape)
    for cls, tag, guard in _classes(K, c, shape, w, dim):
        for _ in K.case(guard):
            if all(k == "mid" for k in cls):
                for pre in pres:
                    K.ensures_eq(f"cells_outside_zone_untouched{list(pre)}", K.value(f, pre + c), K.old(f, pre + c))
                continue
            src, damp, factors = list(c), 1, []
            for a, ax in enumerate(array_axes):
                if cls[a] == "front":
                    src[a] = w - 1
                    s_a = sin_(P * (c[a] * dx))
                elif cls[a] == "back":
                    src[a] = shape[a] - w
                    s_a = sin_(P * ((shape[a] - 1 - c[a]) * dx))
                else:
                    continue
                damp = damp * s_a
                factors.append((a, ax, s_a))
            for pre in pres:
                # every zone value = (product of factors in [0,1]) * (a value the field had on the zone's inner edge)
                K.ensures_eq(f"zone_value_is_damped_inner_edge_value[{tag}]{list(pre)}", K.value(f, pre + c),
                             K.old(f, pre + tuple(src)) * damp)
            for a, ax, s_a in factors:
                K.ensures(f"damping_factor_in_[0,1][{tag}.{ax}]", and_(s_a >= 0, s_a <= 1))
                edge = (c[a] == 0) if cls[a] == "front" else (c[a] == shape[a] - 1)
                K.ensures_eq(f"outermost_ring_factor_zero[{tag}.{ax}]", s_a, 0, when=edge)
