"""C14: the flow step has no preferred direction.

Relational contract on the REAL simulators: the step is executed on a state A and on the relabelled
state g.A (axes permuted / mirrored, grid extents permuted accordingly, vectors transformed as vectors,
vorticity as a pseudo-scalar / pseudo-vector), both built from the same symbols; at a symbolic cell
whose step stencils avoid the boundary zone,  step(g.A)[g.c] == g.step(A)[c]  (exact polynomial
identity).  The Poisson solve enters through its contract: the relabelled stream function is the
relabelled solution (isotropy of the free-space Green's function: see the C03 Green's-function
obligations, which give G as a function of the even-reflected cell separations only).
Precondition of the property, used as a unit-level assumption: no ENO3 face velocity sum is exactly
zero (svx orients every upwind switch canonically under it).
"""
import itertools
from fractions import Fraction as Fr

from svx.contract import and_, unit

from .c_simulators import (PoissonStub, S_, build_simulator, havoc_named, inside, sim_context)


def perm_sign(sigma):
    s, seen = 1, set()
    for i in range(len(sigma)):
        if i in seen:
            continue
        j, n = i, 0
        while j not in seen:
            seen.add(j)
            j = sigma[j]
            n += 1
        if n % 2 == 0:
            s = -s
    return s


class G:
    """signed permutation of the ARRAY axes: new array axis sigma[a] carries old array axis a; mirror[a] flips old axis a"""

    def __init__(self, sigma, mirror):
        self.sigma, self.mirror = tuple(sigma), tuple(mirror)
        self.dim = len(sigma)
        self.det = perm_sign(sigma) * (-1 if sum(mirror) % 2 else 1)

    def shape(self, shape):
        out = [None] * self.dim
        for a in range(self.dim):
            out[self.sigma[a]] = shape[a]
        return tuple(out)

    def cell(self, c, shape):
        out = [None] * self.dim
        for a in range(self.dim):
            out[self.sigma[a]] = (shape[a] - 1 - c[a]) if self.mirror[a] else c[a]
        return tuple(out)

    def inv_cell(self, cn, shape):
        """old cell from a new cell"""
        out = [None] * self.dim
        for a in range(self.dim):
            v = cn[self.sigma[a]]
            out[a] = (shape[a] - 1 - v) if self.mirror[a] else v
        return tuple(out)

    # vector component k (0 = x = LAST array axis) <-> array axis dim-1-k
    def comp_map(self, k):
        a = self.dim - 1 - k
        return self.dim - 1 - self.sigma[a], (-1 if self.mirror[a] else 1)


def _configs():
    out = []
    for name, g in (("transpose", ((1, 0), (0, 0))), ("mirror_x", ((0, 1), (0, 1))), ("mirror_y", ((0, 1), (1, 0)))):
        for f in (False, True):
            out.append(dict(dim=2, sim="ns", g=name, sigma=g[0], mirror=g[1], with_forcing=f))
        out.append(dict(dim=2, sim="passive", g=name, sigma=g[0], mirror=g[1], with_forcing=False))
    for name, g in (("cycle", ((1, 2, 0), (0, 0, 0))), ("swap_yx", ((0, 2, 1), (0, 0, 0))), ("mirror_z", ((0, 1, 2), (1, 0, 0)))):
        out.append(dict(dim=3, sim="ns", g=name, sigma=g[0], mirror=g[1], with_forcing=True))
        out.append(dict(dim=3, sim="passive", g=name, sigma=g[0], mirror=g[1], with_forcing=False))
    return out


@unit("step_equivariance", props=("C14",), configs=_configs(),
      assumes=("no ENO3 face velocity sum is exactly zero (precondition of the property)",
               "Poisson solver contract incl. isotropy: the solution of the relabelled right-hand side is the relabelled solution "
               "(free-space Green's function depends on cell separations only; C03 obligations)",
               "cells whose step stencils avoid the boundary zone (the property's compact-support premise makes the remaining cells trivial)"))
def step_equivariance(K, dim, sim, g, sigma, mirror, with_forcing):
    if K.mode != "sym":
        return None
    from svx import ctx
    from svx.sym import Sym, mk_atom
    ctx.ST.nonzero_conditions = True
    gg = G(sigma, mirror)
    R = 6
    shape = tuple(K.ext(n, lo=2 * R + 1) for n in ("nz", "ny", "nx")[3 - dim:])
    shape2 = gg.shape(shape)
    L, nu, rho, dt = K.real("x_range", pos=True), K.real("nu", pos=True), K.real("rho", pos=True), K.real("dt", pos=True)
    dx = L / shape[-1]
    U = [K.real(f"U_{i}") for i in range(dim)]
    U2 = [None] * dim
    for k in range(dim):
        k2, sg = gg.comp_map(k)
        U2[k2] = sg * U[k]
    scalar_vort = dim == 2 and sim == "ns"

    def atom(name, idx):
        return Sym.atom(mk_atom("cell", (name, tuple(S_(x).key() for x in idx)), "real"))

    def run(shape_, transformed):
        """real step on this labelling; state read through `atom` (relabelled if transformed)"""
        def vec(name, pseudo):
            def rd(idx):  # idx = (component,) + cell in THIS labelling
                k_new, cell = int(S_(idx[0]).const_value()), tuple(idx[1:])
                if not transformed:
                    return atom(name, idx)
                old = gg.inv_cell(cell, shape)
                for k in range(dim):
                    k2, sg = gg.comp_map(k)
                    if k2 == k_new:
                        return (gg.det if pseudo else 1) * sg * atom(name, (k,) + old)
            return rd

        def sca(name, pseudo):
            def rd(cell):
                if not transformed:
                    return atom(name, cell)
                return (gg.det if pseudo else 1) * atom(name, gg.inv_cell(cell, shape))
            return rd

        L_ = dx * shape_[-1]
        with sim_context(K):
            if sim == "ns":
                clsname = f"sopht.simulator.flow.navier_stokes_flow_simulators:UnboundedNavierStokesFlowSimulator{dim}D"
                s = build_simulator(K, clsname, shape_, dict(x_range=L_, kinematic_viscosity=nu, with_forcing=with_forcing,
                                                             with_free_stream_flow=True, flow_density=rho, penalty_zone_width=2))
            else:
                s = build_simulator(K, "sopht.simulator.flow.passive_transport_flow_simulators:PassiveTransportFlowSimulator", shape_,
                                    dict(kinematic_viscosity=nu, grid_dim=dim, x_range=L_, field_type="scalar"))
            def define(view, fn):
                spec = view.spec
                view.buf.write(view._box(), lambda idx, spec=spec, fn=fn: S_(fn(tuple(idx[s_[1]] - s_[2] for s_ in spec if s_[0] == "ax"))), "state")
            if sim == "ns":
                define(s.vorticity_field, sca("vorticity0", True) if scalar_vort else vec("vorticity0", True))
                define(s.velocity_field, vec("velocity0", False))
                if with_forcing:
                    define(s.eul_grid_forcing_field, vec("forcing0", False))
                K.havoc(s.stream_func_field)
                s.time_step(dt, free_stream_velocity=(U2 if transformed else U))
                call = PoissonStub.instances[0].calls[-1]
                return s, call
            define(s.primary_field, sca("primary0", False))
            define(s.velocity_field, vec("velocity0", False))
            s.time_step(dt)
            return s, None

    A, callA = run(shape, False)
    B, callB = run(shape2, True)
    c = K.cell(shape, margin=R)
    c2 = gg.cell(c, shape)
    if sim == "passive":
        K.ensures_eq("transported_field_commutes_with_the_relabelling", K.value(B.primary_field, c2), K.value(A.primary_field, c))
        return
    if scalar_vort:
        K.ensures_eq("vorticity_commutes_with_the_relabelling_(pseudo_scalar)", K.value(B.vorticity_field, c2), gg.det * K.value(A.vorticity_field, c))
    else:
        for k in range(dim):
            k2, sg = gg.comp_map(k)
            K.ensures_eq(f"vorticity_commutes_with_the_relabelling_(pseudo_vector)[{k}]",
                         K.value(B.vorticity_field, (k2,) + c2), gg.det * sg * K.value(A.vorticity_field, (k,) + c))
    # velocity = curl(psi) + U: relabel the solver's (opaque) solution according to its contract
    famA, famB = callA["fam"], callB["fam"]
    mapping = {}
    # psi_B[g.c'] = det * (g psi_A)[c'] for every cell c' the curl stencil at c touches
    import itertools as it
    for off in it.product((-1, 0, 1), repeat=dim):
        cc = tuple(c[a] + off[a] for a in range(dim))
        cc2 = gg.cell(cc, shape)
        if scalar_vort:
            (m, _), = atom(famB, cc2).p.items()
            mapping[m[0][0]] = gg.det * atom(famA, cc)
        else:
            for k in range(dim):
                k2, sg = gg.comp_map(k)
                (m, _), = atom(famB, (k2,) + cc2).p.items()
                mapping[m[0][0]] = gg.det * sg * atom(famA, (k,) + cc)
    for k in range(dim):
        k2, sg = gg.comp_map(k)
        vb = K.value(B.velocity_field, (k2,) + c2).subst(mapping)
        K.ensures_eq(f"velocity_commutes_with_the_relabelling[{k}]", vb, sg * K.value(A.velocity_field, (k,) + c))


@unit("greens_function_equivariance", props=("C14",), kernels=False, native_check=True,
      configs=[dict(dim=2, sigma=(1, 0)), dict(dim=3, sigma=(1, 2, 0)), dict(dim=3, sigma=(0, 2, 1))],
      assumes=("FFTW contract (the transform of the relabelled kernel is the relabelled transform)",))
def greens_function_equivariance(K, dim, sigma):
    """the Green's-function buffer of the REAL unbounded solver built for the relabelled grid is the relabelled
    buffer (same spacing): G'[g.j] == G[j] at every index of the doubled grid -- the solver treats no axis specially."""
    from .c_poisson import FFTStub, SOLVER_MODS, solver_modules
    gg = G(sigma, (0,) * dim)
    if K.mode != "sym":
        # bounded native stand-in (real pyfftw): the solve of the relabelled right-hand side on the relabelled grid is
        # the relabelled solution
        import numpy as np
        n = [K.ext(nm, lo=3) for nm in ("nz", "ny", "nx")[3 - dim:]]
        n = [n[i] + i for i in range(dim)]  # pairwise different extents
        n2 = list(gg.shape(n))
        dxv = K.real("dx", pos=True)
        cls = K.repo(f"{SOLVER_MODS[dim]}:UnboundedPoissonSolverPYFFTW{dim}D")
        a = cls(x_range=dxv * n[-1], num_threads=1, real_t=np.float64, **{f"grid_size_{ax}": n[i] for i, ax in enumerate("zyx"[3 - dim:])})
        b = cls(x_range=dxv * n2[-1], num_threads=1, real_t=np.float64, **{f"grid_size_{ax}": n2[i] for i, ax in enumerate("zyx"[3 - dim:])})
        rhs = K.field("rhs_field", n)
        perm = [0] * dim
        for ax in range(dim):
            perm[sigma[ax]] = ax
        rhs2 = np.ascontiguousarray(np.transpose(rhs, perm))
        ua, ub = np.zeros(n), np.zeros(n2)
        a.solve(solution_field=ua, rhs_field=rhs)
        b.solve(solution_field=ub, rhs_field=rhs2)
        c = K.cell(n)
        K.ensures_eq("solution_commutes_with_the_relabelling", float(ub[gg.cell(c, n)]), float(ua[c]))
        return None
    from svx.symnp import SymReal64

    names = ("nz", "ny", "nx")[3 - dim:]
    n = [K.ext(nm, lo=1) for nm in names]
    n2 = list(gg.shape(n))
    L = K.real("x_range", pos=True)
    dx = L / n[-1]
    with solver_modules(dim):
        cls = K.repo(f"{SOLVER_MODS[dim]}:UnboundedPoissonSolverPYFFTW{dim}D")
        a = cls(x_range=L, num_threads=1, real_t=SymReal64, **{f"grid_size_{ax}": n[i] for i, ax in enumerate("zyx"[3 - dim:])})
        Ga = FFTStub.last.forward[0]
        b = cls(x_range=dx * n2[-1], num_threads=1, real_t=SymReal64, **{f"grid_size_{ax}": n2[i] for i, ax in enumerate("zyx"[3 - dim:])})
        Gb = FFTStub.last.forward[0]
    K.ensures_eq("same_spacing", b.dx, a.dx)
    j = K.cell([2 * x for x in n], name="g")
    j2 = [None] * dim
    for ax in range(dim):
        j2[sigma[ax]] = j[ax]
    from svx.contract import and_, not_
    origin = and_(*[j[ax] == 0 for ax in range(dim)])
    for _ in K.case(not_(origin)):
        K.ensures_eq("kernel_commutes_with_the_relabelling", Gb.at(tuple(j2)), Ga.at(j))
    for _ in K.case(origin):
        K.ensures_eq("self_cell_value_commutes_with_the_relabelling", Gb.at(tuple(j2)), Ga.at(j))
