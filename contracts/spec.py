"""Spec functions shared by the contracts.  Written from the mathematics / the property
statements (never from the kernel bodies): index-functional style, polymorphic over Sym and float.

Conventions: a cell is a tuple of view indices (z, y, x) or (y, x): x is the LAST array axis.
Vector components: x -> 0, y -> 1, z -> 2.
"""
from fractions import Fraction as Fr

from svx.contract import and_, ite_, not_, or_

AX = {"x": -1, "y": -2, "z": -3}
COMP = {"x": 0, "y": 1, "z": 2}
AXES = {2: ("x", "y"), 3: ("x", "y", "z")}


def sh(c, ax, k=1):
    c = list(c)
    c[AX[ax]] = c[AX[ax]] + k
    return tuple(c)


def reader(K, arr, pre=(), part=None):
    """old-value reader of (a component of) an array created by K.field."""
    pre = tuple(pre)
    if part is None:
        return lambda c: K.old(arr, pre + tuple(c))
    return lambda c: K.old(arr, pre + tuple(c), part=part)


def cdiff(f, c, ax):
    """f[c+e] - f[c-e]"""
    return f(sh(c, ax, 1)) - f(sh(c, ax, -1))


def lap(f, c, dim):
    """sum of the 2*dim neighbours minus 2*dim times the centre (undivided Laplacian)."""
    s = -2 * dim * f(c)
    for ax in AXES[dim]:
        s = s + f(sh(c, ax, 1)) + f(sh(c, ax, -1))
    return s


def curl3(fx, fy, fz, c):
    """undivided central-difference curl, components (x, y, z)."""
    return (
        cdiff(fz, c, "y") - cdiff(fy, c, "z"),
        cdiff(fx, c, "z") - cdiff(fz, c, "x"),
        cdiff(fy, c, "x") - cdiff(fx, c, "y"),
    )


def curl2_inplane(fx, fy, c):
    """out-of-plane curl of an in-plane vector: d fy/dx - d fx/dy (undivided)."""
    return cdiff(fy, c, "x") - cdiff(fx, c, "y")


def curl2_outplane(psi, c):
    """in-plane curl of an out-of-plane scalar: (d psi/dy, -d psi/dx) (undivided)."""
    return (cdiff(psi, c, "y"), -cdiff(psi, c, "x"))


def div3(fx, fy, fz, c):
    return cdiff(fx, c, "x") + cdiff(fy, c, "y") + cdiff(fz, c, "z")


# --- conservative ENO3 face flux (upwind-biased 3-point flux of the literature) -----------------
def eno3_face_flux(f, v, c, ax):
    """single-valued flux through the face between cell c and cell c + e_ax.
    g = f*v nodal flux; upwind direction from the sign of the face velocity sum v[c] + v[c+e]."""
    def g(k):
        cc = sh(c, ax, k)
        return f(cc) * v(cc)
    up = v(c) + v(sh(c, ax, 1)) > 0
    return ite_(up,
                Fr(1, 3) * g(1) + Fr(5, 6) * g(0) - Fr(1, 6) * g(-1),
                Fr(1, 3) * g(0) + Fr(5, 6) * g(1) - Fr(1, 6) * g(2))


def eno3_flux_divergence(f, vel, c, dim):
    """sum over axes of Phi_a[c] - Phi_a[c - e_a]; vel: dict axis -> reader."""
    s = 0
    for ax in AXES[dim]:
        s = s + eno3_face_flux(f, vel[ax], c, ax) - eno3_face_flux(f, vel[ax], sh(c, ax, -1), ax)
    return s


def stretching(omega, u_k, c):
    """sum_a omega_a[c] * (u_k[c+e_a] - u_k[c-e_a]); omega: dict axis->reader."""
    return sum(omega[ax](c) * cdiff(u_k, c, ax) for ax in ("x", "y", "z"))
