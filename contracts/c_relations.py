"""Relations BETWEEN kernels, decided on the real closures composed symbolically:
C12 discrete vector-calculus identities, C05 consistency on polynomials, C04 conservation form."""
import itertools
from fractions import Fraction as Fr

from svx.contract import and_, not_, unit

from .c_eulerian import _vel, gshape
from .spec import AXES, AX, COMP, cdiff, curl3, eno3_face_flux, reader, sh


# =============================================================================================
# C12
# =============================================================================================
@unit("div_of_curl_vanishes_3d", props=("C12",), configs=[dict(reset=r) for r in (True, False)])
def div_of_curl_vanishes_3d(K, reset):
    shape = gshape(K, 3)
    curl = K.gen("gen_curl_pyst_kernel_3d", reset_ghost_zone=reset)
    div = K.gen("gen_divergence_pyst_kernel_3d", reset_ghost_zone=reset)
    A, B, d = K.field("A", (3,) + shape), K.field("curl_A", (3,) + shape), K.field("div_curl_A", shape)
    p, inv_dx = K.real("prefactor"), K.real("inv_dx")
    K.run(curl, curl=B, field=A, prefactor=p)
    K.run(div, divergence=d, field=B, inv_dx=inv_dx)
    c = K.cell(shape, margin=2)  # stencils of both operators away from the boundary ring
    K.ensures_eq("div_curl_is_zero", K.value(d, c), 0)


@unit("curl_type_updates_create_no_divergence_3d", props=("C12",))
def curl_type_updates_create_no_divergence_3d(K):
    """omega' = omega + p curl_h(f): div_h omega' - div_h omega = 0 at cells whose stencils are interior."""
    shape = gshape(K, 3)
    upd = K.gen("gen_update_vorticity_from_velocity_forcing_pyst_kernel_3d")
    div = K.gen("gen_divergence_pyst_kernel_3d", reset_ghost_zone=False)
    w, f = K.field("vorticity_field", (3,) + shape), K.field("forcing", (3,) + shape)
    d0, d1 = K.field("div_before", shape), K.field("div_after", shape)
    p, inv_dx = K.real("prefactor"), K.real("inv_dx")
    K.run(div, divergence=d0, field=w, inv_dx=inv_dx)
    K.run(upd, vorticity_field=w, velocity_forcing_field=f, prefactor=p)
    K.run(div, divergence=d1, field=w, inv_dx=inv_dx)
    c = K.cell(shape, margin=2)
    K.ensures_eq("divergence_unchanged", K.value(d1, c), K.value(d0, c))


@unit("stream_function_velocity_2d", props=("C12",), configs=[dict(reset=r) for r in (True, False)])
def stream_function_velocity_2d(K, reset):
    shape = gshape(K, 2)
    oc = K.gen("gen_outplane_field_curl_pyst_kernel_2d", reset_ghost_zone=reset)
    ic = K.gen("gen_inplane_field_curl_pyst_kernel_2d")
    psi, u, w = K.field("psi", shape), K.field("velocity", (2,) + shape), K.field("vorticity", shape)
    p1, p2 = K.real("p1"), K.real("p2")
    K.run(oc, curl=u, field=psi, prefactor=p1)
    K.run(ic, curl=w, field=u, prefactor=p2)
    c = K.cell(shape, margin=2)
    ux = lambda cc: K.value(u, (0,) + tuple(cc))
    uy = lambda cc: K.value(u, (1,) + tuple(cc))
    K.ensures_eq("velocity_is_discretely_divergence_free", cdiff(ux, c, "x") + cdiff(uy, c, "y"), 0)
    ps = reader(K, psi)
    wide = ps(sh(c, "x", 2)) + ps(sh(c, "x", -2)) + ps(sh(c, "y", 2)) + ps(sh(c, "y", -2)) - 4 * ps(c)
    K.ensures_eq("curl_of_curl_is_wide_negative_laplacian", K.value(w, c), -p1 * p2 * wide)


@unit("forcing_update_is_library_curl", props=("C12",), configs=[dict(dim=2), dict(dim=3)])
def forcing_update_is_library_curl(K, dim):
    shape = gshape(K, dim)
    p = K.real("prefactor")
    f = K.field("forcing", (dim,) + shape)
    upd = K.gen(f"gen_update_vorticity_from_velocity_forcing_pyst_kernel_{dim}d")
    c = K.cell(shape, margin=1)
    if dim == 2:
        w, cu = K.field("vorticity_field", shape), K.field("curl", shape)
        curl = K.gen("gen_inplane_field_curl_pyst_kernel_2d")
        K.run(curl, curl=cu, field=f, prefactor=p)
        K.run(upd, vorticity_field=w, velocity_forcing_field=f, prefactor=p)
        K.ensures_eq("update_equals_omega_plus_library_curl", K.value(w, c), K.old(w, c) + K.value(cu, c))
    else:
        w, cu = K.field("vorticity_field", (3,) + shape), K.field("curl", (3,) + shape)
        curl = K.gen("gen_curl_pyst_kernel_3d", reset_ghost_zone=False)
        K.run(curl, curl=cu, field=f, prefactor=p)
        K.run(upd, vorticity_field=w, velocity_forcing_field=f, prefactor=p)
        for i in range(3):
            K.ensures_eq(f"update_equals_omega_plus_library_curl_comp{i}", K.value(w, (i,) + c),
                         K.old(w, (i,) + c) + K.value(cu, (i,) + c))


@unit("penalised_update_is_forcing_update_of_difference", props=("C12",), configs=[dict(dim=2), dict(dim=3)])
def penalised_update_is_forcing_update_of_difference(K, dim):
    shape = gshape(K, dim)
    p = K.real("prefactor")
    pen, vel = K.field("penalised_velocity_field", (dim,) + shape), K.field("velocity_field", (dim,) + shape)
    diff = K.field("difference", (dim,) + shape, init=lambda idx: K.old(pen, idx) - K.old(vel, idx))
    vs = ((dim,) if dim == 3 else ()) + shape
    w1 = K.field("vorticity_field", vs)
    w2 = K.field("vorticity_copy", vs, init=lambda idx: K.old(w1, idx))
    K.run(K.gen(f"gen_update_vorticity_from_penalised_velocity_pyst_kernel_{dim}d"),
          vorticity_field=w1, penalised_velocity_field=pen, velocity_field=vel, prefactor=p)
    K.run(K.gen(f"gen_update_vorticity_from_velocity_forcing_pyst_kernel_{dim}d"),
          vorticity_field=w2, velocity_forcing_field=diff, prefactor=p)
    c = K.cell(shape)
    for pre in ([(i,) for i in range(3)] if dim == 3 else [()]):
        K.ensures_eq(f"same_result{list(pre)}", K.value(w1, pre + c), K.value(w2, pre + c))


# =============================================================================================
# C04 (kernel level): conservation form with a single-valued face flux, from the public closures
# =============================================================================================
@unit("advection_flux_conservation_form", props=("C04",), configs=[dict(dim=2), dict(dim=3)])
def advection_flux_conservation_form(K, dim):
    """flux leaving cell i through a face == flux entering cell i+1 through it, for every pattern of
    velocity signs: the closure's result is  old + inv_dx * sum_a (Phi_a[c] - Phi_a[c - e_a])  with ONE
    face-flux function Phi_a (ENO3 upwind-biased flux of the scheme), in every upwind branch."""
    shape = gshape(K, dim)
    k = K.gen(f"gen_advection_flux_conservative_eno3_pyst_kernel_{dim}d")
    flux, f, v = K.field("advection_flux", shape), K.field("field", shape), K.field("velocity", (dim,) + shape)
    inv_dx = K.real("inv_dx")
    K.run(k, advection_flux=flux, field=f, velocity=v, inv_dx=inv_dx)
    c = K.cell(shape, margin=2)
    vel = _vel(K, v, dim)
    fr = reader(K, f)
    # enumerate the upwind branch of every face of the cell explicitly (2 faces per axis)
    axes = AXES[dim]
    for signs in itertools.product((True, False), repeat=2 * dim):
        guard, total = [], 0
        for j, ax in enumerate(axes):
            for face, off in ((0, 0), (1, -1)):
                cc = sh(c, ax, off)
                up = vel[ax](cc) + vel[ax](sh(cc, ax, 1)) > 0
                guard.append(up if signs[2 * j + face] else not_(up))
        tag = "".join("+" if s else "-" for s in signs)
        for _ in K.case(and_(*guard)):
            total = sum(eno3_face_flux(fr, vel[ax], c, ax) - eno3_face_flux(fr, vel[ax], sh(c, ax, -1), ax)
                        for ax in axes)
            K.ensures_eq(f"telescoping_face_fluxes[{tag}]", K.value(flux, c), K.old(flux, c) + inv_dx * total)
    # the face flux vanishes where the transported field vanishes on its stencil (hence nothing
    # crosses faces outside the support)
    for ax in axes:
        zero_f = lambda cc: 0 * fr(cc)
        K.ensures_eq(f"face_flux_vanishes_with_field[{ax}]", eno3_face_flux(zero_f, vel[ax], c, ax), 0)


@unit("diffusion_and_forcing_conservation_form", props=("C04",), configs=[dict(dim=2), dict(dim=3)])
def diffusion_and_forcing_conservation_form(K, dim):
    shape = gshape(K, dim)
    axes = AXES[dim]
    p = K.real("prefactor")
    c = K.cell(shape, margin=1)
    # diffusion flux = p * sum_a (D_a[c] - D_a[c-e_a]),  D_a[c] = f[c+e_a] - f[c]
    f, flux = K.field("field", shape), K.field("diffusion_flux", shape)
    K.run(K.gen(f"gen_diffusion_flux_pyst_kernel_{dim}d"), diffusion_flux=flux, field=f, prefactor=p)
    fr = reader(K, f)
    D = lambda cc, ax: fr(sh(cc, ax, 1)) - fr(cc)
    K.ensures_eq("diffusion_flux_telescopes", K.value(flux, c), p * sum(D(c, ax) - D(sh(c, ax, -1), ax) for ax in axes))
    # curl-type forcing update: omega' - omega = sum_a (Psi_a[c] - Psi_a[c-e_a]) with Psi built from
    # face averages of the forcing (a[c+e] + a[c])
    frc = K.field("velocity_forcing_field", (dim,) + shape)
    upd = K.gen(f"gen_update_vorticity_from_velocity_forcing_pyst_kernel_{dim}d")
    F = {ax: reader(K, frc, (COMP[ax],)) for ax in axes}

    def avg(g, cc, ax):
        return g(sh(cc, ax, 1)) + g(cc)

    if dim == 2:
        w = K.field("vorticity_field", shape)
        K.run(upd, vorticity_field=w, velocity_forcing_field=frc, prefactor=p)
        psi = {"x": lambda cc: p * avg(F["y"], cc, "x"), "y": lambda cc: -p * avg(F["x"], cc, "y")}
        K.ensures_eq("forcing_update_telescopes", K.value(w, c) - K.old(w, c),
                     sum(psi[ax](c) - psi[ax](sh(c, ax, -1)) for ax in axes))
    else:
        w = K.field("vorticity_field", (3,) + shape)
        K.run(upd, vorticity_field=w, velocity_forcing_field=frc, prefactor=p)
        # component k of curl: eps_{kab} d_a F_b  ->  Psi_a^{(k)} = p * eps_{kab} avg_a(F_b)
        names = ("x", "y", "z")
        for kk, kname in enumerate(names):
            a1, a2 = names[(kk + 1) % 3], names[(kk + 2) % 3]  # curl_k = d_{a1} F_{a2} - d_{a2} F_{a1}
            psi = {a1: (lambda cc, a1=a1, a2=a2: p * avg(F[a2], cc, a1)),
                   a2: (lambda cc, a1=a1, a2=a2: -p * avg(F[a1], cc, a2))}
            K.ensures_eq(f"forcing_update_telescopes_comp{kk}", K.value(w, (kk,) + c) - K.old(w, (kk,) + c),
                         sum(psi[ax](c) - psi[ax](sh(c, ax, -1)) for ax in psi))


@unit("conservation_on_small_grids", props=("C04",), kernels=True,
      configs=[dict(dim=2, shape=(9, 10)), dict(dim=2, shape=(11, 9)), dict(dim=3, shape=(9, 9, 10))]
      + [dict(dim=d, shape=s, pattern=p, _tier="thorough") for d, s in ((2, (9, 10)), (2, (10, 12)), (3, (9, 10, 9)))
         for p in ("neg", "alt", "alt2")],
      desc="bounded shapes, all values: grid sum of the update vanishes for support margin >= reach")
def conservation_on_small_grids(K, dim, shape, pattern="pos"):
    """Concrete small extents, symbolic values: the telescoping lemma M1 instantiated exhaustively.
    Transported field supported in the cells at distance >= 4 from the boundary (reach 2 of the ENO3 face flux + the 2-cell non-updated ring),
    arbitrary velocity everywhere."""
    shape = tuple(shape)
    axes = AXES[dim]
    m = 4  # reach of the ENO3 face fluxes (2) + width of the non-updated ring (2)

    def supp(idx):
        return all(m <= i < n - m for i, n in zip(idx, shape))

    f0 = K.field("seed", shape)
    f = K.field("field", shape, init=lambda idx: K.old(f0, idx) if supp(tuple(int(i) if not hasattr(i, "const_value") else int(i.const_value()) for i in idx)) else 0)
    v, flux = K.field("velocity", (dim,) + shape), K.field("advection_flux", shape)
    kw = dict(field_type="scalar") if dim == 3 else {}
    adv = K.gen(f"gen_advection_timestep_euler_forward_conservative_eno3_pyst_kernel_{dim}d", **kw)
    dif = K.gen(f"gen_diffusion_timestep_euler_forward_pyst_kernel_{dim}d", **kw)
    a, b = K.real("dt_by_dx"), K.real("nu_dt_by_dx2")
    # fix the upwind direction pattern by a sign assumption on the velocity (one of the patterns;
    # the per-cell branch identity for ALL patterns is advection_flux_conservation_form)
    import itertools as it
    # pattern: "pos"/"neg": every velocity component positive / negative; "alt"/"alt2": the upwind direction of a face
    # (sign of the sum of the two adjacent velocities, as the kernels test it) alternates with the face index
    for idx in it.product(*[range(n) for n in shape]):
        for d in range(dim):
            ax = dim - 1 - d  # array axis of velocity component d (x is the last axis)
            if pattern == "pos":
                K.requires(K.old(v, (d,) + idx) > 0)
            elif pattern == "neg":
                K.requires(K.old(v, (d,) + idx) < 0)
            elif idx[ax] + 1 < shape[ax]:
                nb = idx[:ax] + (idx[ax] + 1,) + idx[ax + 1:]
                face_sum = K.old(v, (d,) + idx) + K.old(v, (d,) + nb)
                up = (idx[ax] + (sum(idx) if pattern == "alt2" else 0)) % 2 == 0
                K.requires(face_sum > 0 if up else face_sum < 0)
    K.run(adv, field=f, advection_flux=flux, velocity=v, dt_by_dx=a)
    K.run(dif, field=f, diffusion_flux=flux, nu_dt_by_dx2=b)
    total_new = sum(K.value(f, idx) for idx in it.product(*[range(n) for n in shape]))
    total_old = sum(K.old(f, idx) for idx in it.product(*[range(n) for n in shape]))
    K.ensures_eq("grid_sum_unchanged_by_advection_then_diffusion", total_new, total_old)


@unit("filter_conservation_on_small_grids", props=("C04",), kernels=True,
      configs=[dict(filter_type=ft, order=o, shape=s) for ft in ("multiplicative", "convolution")
               for o, s in ((1, (6, 7, 6)), (2, (8, 8, 9)))],
      desc="bounded shapes, all values: the 3-D Laplacian filter leaves the grid sum of a compactly supported field unchanged, "
           "whatever its two captured work buffers held before the call")
def filter_conservation_on_small_grids(K, filter_type, order, shape):
    """'... for any ... filter setting' of C04: field supported at distance >= order + 1 from the boundary (reach of
    `order` passes of the 3-point 1-D filter + the zeroed ring of the flux buffer); prior content of both work buffers
    arbitrary (they are scratch arrays shared between operators)."""
    import itertools as it
    shape = tuple(shape)
    m = order + 1

    def supp(idx):
        return all(m <= i < n - m for i, n in zip(idx, shape))

    def conc(idx):
        return tuple(int(i) if not hasattr(i, "const_value") else int(i.const_value()) for i in idx)

    flux_buf, field_buf = K.field("filter_flux_buffer", shape), K.field("field_buffer", shape)
    k = K.gen("gen_laplacian_filter_kernel_3d", filter_order=order, filter_flux_buffer=flux_buf,
              field_buffer=field_buf, field_type="scalar", filter_type=filter_type)
    f0 = K.field("seed", shape)
    f = K.field("scalar_field", shape, init=lambda idx: K.old(f0, idx) if supp(conc(idx)) else 0)
    K.havoc(flux_buf)
    K.havoc(field_buf)
    K.run(k, scalar_field=f)
    cells = list(it.product(*[range(n) for n in shape]))
    K.ensures_eq("grid_sum_unchanged_by_filter", sum(K.value(f, idx) for idx in cells), sum(K.old(f, idx) for idx in cells))
