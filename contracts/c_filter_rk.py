"""Laplacian filters (C13 closed form, C18/C19 work-buffer independence) and the SSP-RK3
vortex-stretching step (C20, C13)."""
from fractions import Fraction as Fr

from svx.contract import and_, ite_, not_, unit

from .c_eulerian import _omega, gshape, region
from .spec import reader, sh, stretching

AXN = {"x": 2, "y": 1, "z": 0}


def _interior(c, shape, g=1):
    return and_(*[and_(ci >= g, ci < n - g) for ci, n in zip(c, shape)])


def filter_1d(f, ax, shape):
    """F_a with the ring zeroing of the flux buffer: 1/4 (2 g - g[+e_a] - g[-e_a]) inside, 0 on the ring."""
    memo = {}

    def g(c):
        key = tuple(getattr(x, "key", lambda: x)() for x in c)
        if key not in memo:
            memo[key] = ite_(_interior(c, shape), Fr(1, 4) * (2 * f(c) - f(sh(c, ax, 1)) - f(sh(c, ax, -1))), 0)
        return memo[key]

    return g


def filter_spec(f, shape, order, ftype):
    """documented filter: multiplicative f - (Fz Fy Fx)^k f ; convolution (1-Fz^k)(1-Fy^k)(1-Fx^k) f"""
    if ftype == "multiplicative":
        g = f
        for _ in range(order):
            for ax in ("x", "y", "z"):
                g = filter_1d(g, ax, shape)
        return lambda c, g=g: f(c) - g(c)
    cur = f
    for ax in ("x", "y", "z"):
        g = cur
        for _ in range(order):
            g = filter_1d(g, ax, shape)
        cur = (lambda prev, g: (lambda c: prev(c) - g(c)))(cur, g)
    return cur


def _filter_cfgs():
    out = []
    for ft in ("multiplicative", "convolution"):
        for order in (1, 2, 3, 4):
            for fld in ("scalar", "vector"):
                if fld == "vector" and order > 1:
                    continue
                out.append(dict(filter_type=ft, order=order, field_type=fld))
    return out


@unit("laplacian_filter_3d", props=("C13", "C18", "C19"), configs=_filter_cfgs())
def laplacian_filter_3d(K, filter_type, order, field_type):
    shape = gshape(K, 3)
    flux_buf, field_buf = K.field("filter_flux_buffer", shape), K.field("field_buffer", shape)
    k = K.gen("gen_laplacian_filter_kernel_3d", filter_order=order, filter_flux_buffer=flux_buf,
              field_buffer=field_buf, field_type=field_type, filter_type=filter_type)
    vec = field_type == "vector"
    f = K.field("vector_field" if vec else "scalar_field", ((3,) if vec else ()) + shape)
    # arbitrary prior contents of the captured work buffers AT THE CALL (not only at generator time)
    K.havoc(flux_buf)
    K.havoc(field_buf)
    if vec:
        K.run(k, vector_field=f)
    else:
        K.run(k, scalar_field=f)
    pres = [(i,) for i in range(3)] if vec else [()]
    R = order if filter_type == "convolution" else order
    # (a) deep interior: every region test of the real closure is decided -> exact polynomial identity;
    #     in particular the result mentions no prior content of the two captured work buffers
    ci = K.cell(shape, name="i", margin=R + 1)
    for pre in pres:
        spec = filter_spec(reader(K, f, pre), shape, order, filter_type)
        K.ensures_eq(f"deep_interior_closed_form{list(pre)}", K.value(f, pre + ci), spec(ci))
    # (b) any cell of any grid (boundary effects included), orders 1-2
    if order <= 2:
        c = K.cell(shape)
        for pre in pres:
            spec = filter_spec(reader(K, f, pre), shape, order, filter_type)
            K.ensures_eq(f"all_cells_closed_form{list(pre)}", K.value(f, pre + c), spec(c))


@unit("vorticity_stretching_timestep_ssprk3_3d", props=("C13", "C20", "C18"))
def vorticity_stretching_timestep_ssprk3_3d(K):
    """nominal scheme: third-order SSP Runge-Kutta for d(omega)/dt = A omega / dt with the Euler-forward
    flux operator A of the FULL step (the flux is linear in omega for a frozen velocity), i.e.
    omega' = (I + A + A^2/2 + A^3/6) omega.  A is taken from the property statement: the library's own
    Euler flux  (A w)_k[c] = dt_by_2_dx * sum_a w_a[c] (u_k[c+e_a] - u_k[c-e_a])  inside, 0 on the ring."""
    shape = gshape(K, 3)
    mid = K.field("midstep_buffer_vector_field", (3,) + shape)
    k = K.gen("gen_vorticity_stretching_timestep_ssprk3_pyst_kernel_3d", midstep_buffer_vector_field=mid)
    w, u, flux = (K.field(n, (3,) + shape) for n in
                  ("vorticity_field", "velocity_field", "vorticity_stretching_flux_field"))
    p = K.real("dt_by_2_dx")
    K.havoc(mid)
    K.run(k, vorticity_field=w, velocity_field=u, vorticity_stretching_flux_field=flux, dt_by_2_dx=p)
    K.unchanged("frame_velocity", u, props=("C13",))
    c = K.cell(shape)
    inside = _interior(c, shape)
    w0 = [K.old(w, (i,) + c) for i in range(3)]
    for _ in K.case(inside):
        G = [[K.old(u, (kk,) + sh(c, ax, 1)) - K.old(u, (kk,) + sh(c, ax, -1)) for ax in ("x", "y", "z")]
             for kk in range(3)]

        def A(v):
            return [p * sum(G[kk][a] * v[a] for a in range(3)) for kk in range(3)]

        a1 = A(w0)
        a2 = A(a1)
        a3 = A(a2)
        for i in range(3):
            K.ensures_eq(f"interior_comp{i}_is_(I+A+A^2/2+A^3/6)w", K.value(w, (i,) + c),
                         w0[i] + a1[i] + Fr(1, 2) * a2[i] + Fr(1, 6) * a3[i], props=("C20",))
            # recorded finding F1 (known_findings.json): half third stage => I + 2/3 A + 1/3 A^2 + 1/12 A^3
            K.signature(f"F1_signature_comp{i}", K.value(w, (i,) + c),
                        w0[i] + Fr(2, 3) * a1[i] + Fr(1, 3) * a2[i] + Fr(1, 12) * a3[i], props=("C20",))
    for _ in K.case(not_(inside)):
        for i in range(3):
            K.ensures_eq(f"ring_comp{i}_unchanged", K.value(w, (i,) + c), w0[i])


def _cheb(m, x):
    a, b = 1, x
    if m == 0:
        return a
    for _ in range(m - 1):
        a, b = b, 2 * x * b - a
    return b


@unit("laplacian_filter_fourier_symbol", props=("C19",),
      configs=[dict(filter_type=t, order=k) for t in ("multiplicative", "convolution") for k in (1, 2, 3, 4)],
      assumes=("M3: the Fourier symbol of a shift-invariant even stencil sum_o a_o f[c+o] is sum_o a_o prod_d cos(o_d theta_d), "
               "and cos(m theta) = T_m(cos theta) (Chebyshev)",
               "range clause for orders >= 2 follows from the proved identity with the factored form by repeated use of the "
               "proved step lemmas (y,s in [0,1] => y*s in [0,1]; t in [0,1] => 1-t in [0,1])"))
def laplacian_filter_fourier_symbol(K, filter_type, order):
    """away from the boundary the real filter closure acts as a fixed even stencil; its Fourier
    symbol, as a polynomial in x_d = cos(theta_d), equals 1 - prod_d y_d^k (multiplicative) or
    prod_d (1 - y_d^k) (convolution) with y_d = (1 - x_d)/2 in [0,1]: hence it is 1 at theta = 0
    (constants fixed), 0 at theta = (pi,pi,pi) (checkerboard annihilated) and lies in [0,1]."""
    from svx.sym import ATOMS, Sym
    if K.mode != "sym":
        return
    shape = gshape(K, 3)
    flux_buf, field_buf = K.field("filter_flux_buffer", shape), K.field("field_buffer", shape)
    k = K.gen("gen_laplacian_filter_kernel_3d", filter_order=order, filter_flux_buffer=flux_buf,
              field_buffer=field_buf, field_type="scalar", filter_type=filter_type)
    f = K.field("scalar_field", shape)
    K.havoc(flux_buf)
    K.havoc(field_buf)
    K.run(k, scalar_field=f)
    c = K.cell(shape, name="i", margin=order + 1)
    val = K.value(f, c)
    # --- extract the stencil by linearity: val = sum_o coef[o] * scalar_field[c+o]
    coef, linear = {}, True
    for m, a in val.p.items():
        if len(m) != 1 or m[0][1] != 1 or ATOMS[m[0][0]].kind != "cell" or ATOMS[m[0][0]].args[0] != "scalar_field":
            linear = False
            break
        idx = [Sym._from_key(kx) for kx in ATOMS[m[0][0]].args[1]]
        off = [i - ci for i, ci in zip(idx, c)]
        if not all(o.is_const() for o in off):
            linear = False
            break
        coef[tuple(int(o.const_value()) for o in off)] = a
    K.ensures("result_is_a_fixed_linear_stencil_of_the_input_only", linear,
              note="no work-buffer content, no constant term, no products")
    if not linear:
        return
    K.ensures("stencil_is_even", all(coef.get(tuple(-x for x in o)) == a for o, a in coef.items()))
    x = [K.real(f"cos_theta_{d}") for d in "zyx"]
    symbol = sum(a * _cheb(abs(o[0]), x[0]) * _cheb(abs(o[1]), x[1]) * _cheb(abs(o[2]), x[2]) for o, a in coef.items())
    y = [(1 - xi) / 2 for xi in x]
    if filter_type == "multiplicative":
        factored = 1 - (y[0] * y[1] * y[2]) ** order
    else:
        factored = (1 - y[0] ** order) * (1 - y[1] ** order) * (1 - y[2] ** order)
    K.ensures_eq("symbol_equals_documented_transfer_function", symbol, factored)
    one = {ATOMS_id(xi): Sym.const(1) for xi in x}
    mone = {ATOMS_id(xi): Sym.const(-1) for xi in x}
    K.ensures_eq("constants_are_kept_(theta=0)", symbol.subst(one), 1)
    K.ensures_eq("checkerboard_is_annihilated_(theta=pi)", symbol.subst(mone), 0)
    # range: step lemmas (proved), and the direct statement for order 1
    s, t = K.real("s"), K.real("t")
    K.ensures("step_lemma_product_in_[0,1]", and_(s * t >= 0, s * t <= 1), when=and_(s >= 0, s <= 1, t >= 0, t <= 1))
    K.ensures("step_lemma_complement_in_[0,1]", and_(1 - t >= 0, 1 - t <= 1), when=and_(t >= 0, t <= 1))
    if order == 1:
        K.ensures("symbol_in_[0,1]", and_(symbol >= 0, symbol <= 1), when=and_(*[and_(xi >= -1, xi <= 1) for xi in x]))


def ATOMS_id(s):
    (m, _), = s.p.items()
    return m[0][0]
