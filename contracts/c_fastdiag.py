"""C11: fast-diagonalisation Neumann Poisson solvers.

Two parts (DESIGN 5-C11, narrowed to what was built):
 (1) CONTRACTION STRUCTURE of the real solve() / vector_field_solve(), for ALL real values and
     bounded non-cubic sizes: the eigenvector matrices, their inverses, the spectral weights and the
     right-hand side are numpy object arrays of symbols; the real tensordot / multi_dot / multiply /
     transpose calls run on them and the result is compared with the mode-product formula
        u = (W o (f x_x Vx^-1 x_y Vy^-1 x_z Vz^-1)) x_x Vx x_y Vy x_z Vz        (x along the LAST axis)
     written with explicit index sums.  A wrong `axes=` pair, a missing transpose, V where V^-1
     belongs or a swapped axis changes the polynomial.
 (2) BOUNDED native stand-in for the assumed LAPACK contract and the spectral lemma M9: real
     constructor and solver on small non-cubic grids: matrix assembly is the second-order Neumann
     Laplacian / dx^2, V^-1 V = I, the result is real, of the working precision, has zero mean and
     satisfies -Lap_h u = f - mean(f) to rounding; vector solve = three scalar solves.
"""
import itertools
from fractions import Fraction as Fr

import numpy as np

from svx.contract import unit

from .c_coupling import S_

MOD = {2: "sopht.numeric.eulerian_grid_ops.poisson_solver_2d.FastDiagPoissonSolver2D",
       3: "sopht.numeric.eulerian_grid_ops.poisson_solver_3d.FastDiagPoissonSolver3D"}


@unit("fast_diag_contraction_structure", props=("C11",), kernels=False,
      configs=[dict(shape=(2, 3)), dict(shape=(3, 2)), dict(shape=(2, 3, 2)), dict(shape=(3, 2, 4), _tier="thorough")],
      assumes=("numpy.tensordot / linalg.multi_dot / multiply / transpose act on object arrays as on float arrays (numpy's own code runs)",
               "sizes bounded (non-cubic, axes of different length so that any axis mix-up changes shapes or the polynomial); all values symbolic"))
def fast_diag_contraction_structure(K, shape):
    shape = tuple(shape)
    if K.mode != "sym":
        return None
    from svx import objnp
    dim = len(shape)
    cls = K.repo(f"{MOD[dim]}:FastDiagPoissonSolver{dim}D")
    axes = "zyx"[3 - dim:]
    V = {a: objnp.fresh(f"V{a}", (n, n)) for a, n in zip(axes, shape)}
    Vi = {a: objnp.fresh(f"V{a}inv", (n, n)) for a, n in zip(axes, shape)}
    W = objnp.fresh("W", shape)
    obj = cls.__new__(cls)
    if dim == 3:
        obj.grid_size_z, obj.grid_size_y, obj.grid_size_x = shape
        for a in axes:
            setattr(obj, f"eig_vecs_{a}", V[a])
            setattr(obj, f"inv_of_eig_vecs_{a}", Vi[a])
        obj.x_axis_idx, obj.y_axis_idx, obj.z_axis_idx = 0, 1, 2
    else:
        obj.grid_size_y, obj.grid_size_x = shape
        obj.eig_vecs_y, obj.inv_of_eig_vecs_y = V["y"], Vi["y"]
        obj.tranpose_of_eig_vecs_x = V["x"].T.copy()
        obj.tranpose_of_inv_of_eig_vecs_x = Vi["x"].T.copy()
    obj.inv_eig_val_matrix = W
    obj.spectral_field_buffer = objnp.fresh("stale_spectral_buffer", shape)
    f = K.array("rhs_field", shape)
    u = objnp.fresh("stale_solution", shape)
    obj.solve(solution_field=u, rhs_field=f)
    K.array_unchanged("rhs_field_untouched", f)

    def spec(rhs):
        spectral = {}
        for k in itertools.product(*[range(n) for n in shape]):
            tot = 0
            for c in itertools.product(*[range(n) for n in shape]):
                t = S_(rhs[c])
                for d, a in enumerate(axes):
                    t = t * S_(Vi[a][k[d], c[d]])
                tot = tot + t
            spectral[k] = tot * S_(W[k])
        out = {}
        for c in itertools.product(*[range(n) for n in shape]):
            tot = 0
            for k in itertools.product(*[range(n) for n in shape]):
                t = spectral[k]
                for d, a in enumerate(axes):
                    t = t * S_(V[a][c[d], k[d]])
                tot = tot + t
            out[c] = tot
        return out

    exp = spec(K.arrays0[id(f)])
    for c in itertools.product(*[range(n) for n in shape]):
        K.ensures_eq(f"solution_is_the_mode_product_formula{list(c)}", u[c], exp[c])
    if dim == 3:
        fv = K.array("rhs_vector_field", (3,) + shape)
        uv = objnp.fresh("stale_vector_solution", (3,) + shape)
        obj.spectral_field_buffer = objnp.fresh("stale_spectral_buffer2", shape)
        obj.vector_field_solve(solution_vector_field=uv, rhs_vector_field=fv)
        for comp in range(3):
            e = spec(K.arrays0[id(fv)][comp])
            for c in itertools.product(*[range(n) for n in shape]):
                K.ensures_eq(f"vector_solve_is_component_wise[{comp}]{list(c)}", uv[(comp,) + c], e[c])


@unit("fast_diag_native_neumann_problem", props=("C11",), kernels=False, native_check=True,
      configs=[dict(shape=(2, 2), precision="double"), dict(shape=(7, 4), precision="double"), dict(shape=(5, 9), precision="single"),
               dict(shape=(2, 3, 5), precision="double"), dict(shape=(6, 4, 3), precision="single"), dict(shape=(16, 9, 12), precision="double"),
               dict(shape=(52, 3), precision="single"), dict(shape=(4, 6, 56), precision="single"),
               dict(shape=(6, 5), precision="double", history="other_precision_first"),
               dict(shape=(4, 5, 4), precision="double", history="other_precision_first"),
               dict(shape=(4, 5, 4), precision="single", history="other_precision_first")],
      desc="BOUNDED native stand-in: assembly, eigen-decomposition (LAPACK) and lemma M9 on small non-cubic grids")
def fast_diag_native_neumann_problem(K, shape, precision, history=None):
    shape = tuple(shape)
    if K.mode == "sym":
        return None
    real_t = np.float64 if precision == "double" else np.float32
    tol = 1e-9 if precision == "double" else 2e-3
    K.tol = tol
    dim = len(shape)
    dx = K.real("dx", pos=True)
    cls = K.repo(f"{MOD[dim]}:FastDiagPoissonSolver{dim}D")
    kw = {f"grid_size_{a}": n for a, n in zip("zyx"[3 - dim:], shape)}
    if history == "other_precision_first":
        # call history: a solver of the OTHER precision for the same grid (spacing exactly representable in both
        # precisions) was constructed and used earlier in the same process
        dx = 0.0625
        other_t = np.float32 if precision == "double" else np.float64
        other = cls(dx=other_t(dx), real_t=other_t, **kw)
        other.solve(solution_field=np.zeros(shape, dtype=other_t), rhs_field=K.rng.normal(size=shape).astype(other_t))
    sol = cls(dx=real_t(dx), real_t=real_t, **kw)
    f = K.rng.normal(size=shape).astype(real_t)
    f0 = f.copy()
    u = np.zeros(shape, dtype=real_t)
    sol.solve(solution_field=u, rhs_field=f)
    K.ensures("rhs_field_untouched", np.array_equal(f, f0))
    K.ensures("solution_is_real_and_of_the_working_precision", u.dtype == real_t and np.isrealobj(u) and np.all(np.isfinite(u)))
    K.ensures_eq("solution_has_zero_mean", float(u.mean()) / (1.0 + float(np.abs(u).max())), 0.0)
    # second-order negative Laplacian with homogeneous Neumann conditions at the domain faces (ghost = mirror)
    up = np.pad(u.astype(np.float64), 1, mode="edge")
    lap = np.zeros(shape)
    core = tuple(slice(1, -1) for _ in shape)
    for a in range(dim):
        plus = tuple(slice(2, None) if b == a else slice(1, -1) for b in range(dim))
        minus = tuple(slice(None, -2) if b == a else slice(1, -1) for b in range(dim))
        lap += (2 * up[core] - up[plus] - up[minus]) / float(dx) ** 2
    resid = lap - (f0.astype(np.float64) - f0.astype(np.float64).mean())
    scale = 1.0 + float(np.abs(f0).max())
    c = K.cell(shape)
    K.ensures_eq("discrete_neumann_poisson_equation_holds", float(resid[c]) / scale, 0.0)
    K.ensures_eq("discrete_neumann_poisson_equation_holds_everywhere", float(np.abs(resid).max()) / scale, 0.0)
    if dim == 3:
        fv = K.rng.normal(size=(3,) + tuple(shape)).astype(real_t)
        uv = np.zeros_like(fv)
        sol.vector_field_solve(solution_vector_field=uv, rhs_vector_field=fv)
        ok = True
        for comp in range(3):
            one = np.zeros(shape, dtype=real_t)
            sol.solve(solution_field=one, rhs_field=fv[comp])
            ok = ok and np.array_equal(one, uv[comp])
        K.ensures("vector_solve_equals_three_scalar_solves", ok)


class _DiagsStub:
    """contract stub of scipy.sparse.diags(...): the banded matrix as a dense array (toarray)"""

    def __init__(self, data):
        self.data = data

    def __rmul__(self, s):
        out = np.empty(self.data.shape, dtype=object)
        for idx in np.ndindex(*self.data.shape):
            out[idx] = s * int(self.data[idx])
        return _DiagsStub(out)

    def toarray(self):
        return self.data


class _SppStub:
    @staticmethod
    def diags(diagonals, offsets, shape=None, format=None):  # noqa: A002
        import scipy.sparse as real
        return _DiagsStub(real.diags(diagonals, offsets, shape=shape).toarray().astype(int))


@unit("fast_diag_assembly_and_spectral_weights", props=("C11",), kernels=False,
      configs=[dict(shape=(2, 3)), dict(shape=(3, 2)), dict(shape=(2, 3, 2)), dict(shape=(1, 2, 3))],
      assumes=("numpy.linalg.eigh contract: ascending real eigenvalues, eigenvectors as columns, a function of its argument; numpy.linalg.inv: the inverse "
               "(both replaced by stubs returning symbolic arrays)", "scipy.sparse.diags(...).toarray() is the banded matrix",
               "lemma M9: for the Neumann matrix the eigenvalue 0 is simple and is the smallest, hence LAST after the descending sort",
               "axes with equal 1-D operators may share one decomposition (matched by the matrix handed to eigh, not by call order)",
               "sizes bounded; dx and all eigen-data symbolic"))
def fast_diag_assembly_and_spectral_weights(K, shape):
    """real constructor path (_construct_poisson_matrices, _apply_boundary_conds..., _compute_spectral_decomp...):
    every 1-D matrix is the second-order Neumann Laplacian / dx^2; after the descending sort V_a / V_a^-1 belong to
    axis a, and the spectral weight tensor is 1/(lz[k]+ly[j]+lx[i]) with exactly ONE zero entry, at the last index."""
    if K.mode != "sym":
        return None
    import importlib

    from svx import objnp
    from svx.symnp import SymReal64
    shape = tuple(shape)
    dim = len(shape)
    m = importlib.import_module(MOD[dim])
    cls = K.repo(f"{MOD[dim]}:FastDiagPoissonSolver{dim}D")
    axes = "zyx"[3 - dim:]
    dx = K.real("dx", pos=True)
    calls, invs = [], []  # every la.eigh / la.inv call of the constructor, by contract

    def same_matrix(a_, b_):
        return a_.shape == b_.shape and all(S_(a_[idx]).same(S_(b_[idx])) for idx in np.ndindex(*a_.shape))

    class LA:
        @staticmethod
        def eigh(mat):
            n = mat.shape[0]
            for c in calls:  # eigh is a FUNCTION of its argument: an equal matrix gets the same eigen-data
                if same_matrix(c["mat"], mat):
                    calls.append(dict(mat=mat.copy(), lam=c["lam"], vec=c["vec"]))
                    return c["lam"].copy(), c["vec"].copy()
            k = len(calls)
            lam_k = objnp.fresh(f"lambda_{k}", (n,))
            K.requires(S_(lam_k[0]) == 0)  # M9: the Neumann matrix has the simple eigenvalue 0, all others positive
            for i in range(n - 1):  # ascending (eigh's contract)
                K.requires(S_(lam_k[i]) < S_(lam_k[i + 1]))
            vec_k = objnp.fresh(f"U_{k}", (n, n))
            calls.append(dict(mat=mat.copy(), lam=lam_k, vec=vec_k))
            return lam_k.copy(), vec_k.copy()

        eig = eigh

        @staticmethod
        def inv(mat):
            for arg, r in invs:
                if same_matrix(arg, mat):
                    invs.append((mat.copy(), r))
                    return r.copy()
            res = objnp.fresh(f"Uinv_{len(invs)}", mat.shape)
            invs.append((mat.copy(), res))
            return res.copy()

        multi_dot = staticmethod(np.linalg.multi_dot)

    saved = (m.la, m.spp, m.np)
    m.la, m.spp, m.np = LA, _SppStub, objnp.ObjNp()
    try:
        kw = {f"grid_size_{a}": n for a, n in zip(axes, shape)}
        sol = cls(dx=dx, real_t=SymReal64, **kw)
    finally:
        m.la, m.spp, m.np = saved

    def neumann_entry(n, i, j):
        if i == j:
            if n == 1:
                return 1  # both closures coincide on a one-cell axis (the later assignment wins)
            return 1 if (i == 0 or i == n - 1) else 2
        return -1 if abs(i - j) == 1 else 0

    # ---- assembly: for every axis the second-order negative Laplacian with homogeneous Neumann closure, over dx^2, is
    #      among the decomposed matrices (axes with EQUAL operators may share one decomposition) -----------------------------
    lam, vec = {}, {}
    for pos, a in enumerate(axes[::-1]):  # x first: the order in which the constructor decomposes
        n = shape[axes.index(a)]
        target = np.empty((n, n), dtype=object)
        for i in range(n):
            for j in range(n):
                target[i, j] = neumann_entry(n, i, j) / dx**2
        match = [c for c in calls if same_matrix(c["mat"], target)]
        # no exact match: report entry by entry against the decomposition made at this axis' position (if any)
        cand = match[0] if match else (calls[pos] if pos < len(calls) and calls[pos]["mat"].shape == (n, n) else None)
        K.ensures(f"operator_of_axis_is_decomposed[{a}]", cand is not None)
        if cand is None:
            return
        for i in range(n):
            for j in range(n):
                K.ensures_eq(f"neumann_laplacian_entry[{a},{i},{j}]", cand["mat"][i, j], target[i, j])
        lam[a], vec[a] = cand["lam"], cand["vec"]
    # ---- eigenvectors: descending re-sort keeps eigenpairs together; the inverse is taken of the SORTED matrix ------------
    for a in axes:
        n = shape[axes.index(a)]
        V = getattr(sol, f"eig_vecs_{a}", None)
        if V is None:  # 2-D solver stores the x matrices transposed
            V = sol.tranpose_of_eig_vecs_x.T
        sorted_vec = np.empty((n, n), dtype=object)
        for i in range(n):
            for k in range(n):
                sorted_vec[i, k] = vec[a][i, n - 1 - k]
                K.ensures_eq(f"sorted_eigenvector_columns[{a},{i},{k}]", V[i, k], sorted_vec[i, k])
        inv_call = [r for arg, r in invs if same_matrix(arg, sorted_vec)]
        K.ensures(f"inverse_is_taken_of_the_sorted_eigenvector_matrix[{a}]", bool(inv_call))
        Vi = getattr(sol, f"inv_of_eig_vecs_{a}", None)
        if Vi is None:
            Vi = sol.tranpose_of_inv_of_eig_vecs_x.T
        K.ensures(f"stored_inverse_is_la_inv_result[{a}]", bool(inv_call) and same_matrix(Vi, inv_call[0]))
    # ---- spectral weights --------------------------------------------------------------------------------------------
    W = sol.inv_eig_val_matrix
    K.ensures("weight_tensor_shape", W.shape == shape)
    last = tuple(n - 1 for n in shape)
    for k in itertools.product(*[range(n) for n in shape]):
        if k == last:
            K.ensures_eq("constant_mode_is_removed_(weight_zero_at_the_last_index)", W[k], 0)
        else:
            s = sum(S_(lam[a][shape[d] - 1 - k[d]]) for d, a in enumerate(axes))  # descending order
            K.ensures_eq(f"weight_is_reciprocal_of_summed_eigenvalues{list(k)}", W[k], 1 / s)
