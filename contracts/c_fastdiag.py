"""C11: fast-diagonalisation Neumann Poisson solvers.

Two parts (DESIGN 5-C11, narrowed to what was built):
 (1) CONTRACTION STRUCTURE of the real solve() / vector_field_solve(), for ALL real values and
     bounded non-cubic sizes: the eigenvector matrices, their inverses, the spectral weights and the
     right-hand side are numpy object arrays of symbols; the real tensordot / multi_dot / multiply /
     transpose calls run on them and the result is compared with the mode-product formula
        u = (W o (f x_x Vx^-1 x_y Vy^-1 x_z Vz^-1)) x_x Vx x_y Vy x_z Vz        (x along the LAST axis)
     written with explicit index sums.  A wrong `axes=` pair, a missing transpose, V where V^-1
     belongs or a swapped axis changes the polynomial.
 (2) BOUNDED native stand-in for the assumed LAPACK contract and the spectral lemma M9: real
     constructor and solver on small non-cubic grids: matrix assembly is the second-order Neumann
     Laplacian / dx^2, V^-1 V = I, the result is real, of the working precision, has zero mean and
     satisfies -Lap_h u = f - mean(f) to rounding; vector solve = three scalar solves.
"""
import itertools
from fractions import Fraction as Fr

import numpy as np

from svx.contract import unit

from .c_coupling import S_

MOD = {2: "sopht.numeric.eulerian_grid_ops.poisson_solver_2d.FastDiagPoissonSolver2D",
       3: "sopht.numeric.eulerian_grid_ops.poisson_solver_3d.FastDiagPoissonSolver3D"}


@unit("fast_diag_contraction_structure", props=("C11",), kernels=False,
      configs=[dict(shape=(2, 3)), dict(shape=(3, 2)), dict(shape=(2, 3, 2)), dict(shape=(3, 2, 4), _tier="thorough")],
      assumes=("numpy.tensordot / linalg.multi_dot / multiply / transpose act on object arrays as on float arrays (numpy's own code runs)",
               "sizes bounded (non-cubic, axes of different length so that any axis mix-up changes shapes or the polynomial); all values symbolic"))
def fast_diag_contraction_structure(K, shape):
    shape = tuple(shape)
    if K.mode != "sym":
        return None
    from svx import objnp
    dim = len(shape)
    cls = K.repo(f"{MOD[dim]}:FastDiagPoissonSolver{dim}D")
    axes = "zyx"[3 - dim:]
    V = {a: objnp.fresh(f"V{a}", (n, n)) for a, n in zip(axes, shape)}
    Vi = {a: objnp.fresh(f"V{a}inv", (n, n)) for a, n in zip(axes, shape)}
    W = objnp.fresh("W", shape)
    obj = cls.__new__(cls)
    if dim == 3:
        obj.grid_size_z, obj.grid_size_y, obj.grid_size_x = shape
        for a in axes:
            setattr(obj, f"eig_vecs_{a}", V[a])
            setattr(obj, f"inv_of_eig_vecs_{a}", Vi[a])
        obj.x_axis_idx, obj.y_axis_idx, obj.z_axis_idx = 0, 1, 2
    else:
        obj.grid_size_y, obj.grid_size_x = shape
        obj.eig_vecs_y, obj.inv_of_eig_vecs_y = V["y"], Vi["y"]
        obj.tranpose_of_eig_vecs_x = V["x"].T.copy()
        obj.tranpose_of_inv_of_eig_vecs_x = Vi["x"].T.copy()
    obj.inv_eig_val_matrix = W
    obj.spectral_field_buffer = objnp.fresh("stale_spectral_buffer", shape)
    f = K.array("rhs_field", shape)
    u = objnp.fresh("stale_solution", shape)
    obj.solve(solution_field=u, rhs_field=f)
    K.array_unchanged("rhs_field_untouched", f)

    def spec(rhs):
        spectral = {}
        for k in itertools.product(*[range(n) for n in shape]):
            tot = 0
            for c in itertools.product(*[range(n) for n in shape]):
                t = S_(rhs[c])
                for d, a in enumerate(axes):
                    t = t * S_(Vi[a][k[d], c[d]])
                tot = tot + t
            spectral[k] = tot * S_(W[k])
        out = {}
        for c in itertools.product(*[range(n) for n in shape]):
            tot = 0
            for k in itertools.product(*[range(n) for n in shape]):
                t = spectral[k]
                for d, a in enumerate(axes):
                    t = t * S_(V[a][c[d], k[d]])
                tot = tot + t
            out[c] = tot
        return out

    exp = spec(K.arrays0[id(f)])
    for c in itertools.product(*[range(n) for n in shape]):
        K.ensures_eq(f"solution_is_the_mode_product_formula{list(c)}", u[c], exp[c])
    if dim == 3:
        fv = K.array("rhs_vector_field", (3,) + shape)
        uv = objnp.fresh("stale_vector_solution", (3,) + shape)
        obj.spectral_field_buffer = objnp.fresh("stale_spectral_buffer2", shape)
        obj.vector_field_solve(solution_vector_field=uv, rhs_vector_field=fv)
        for comp in range(3):
            e = spec(K.arrays0[id(fv)][comp])
            for c in itertools.product(*[range(n) for n in shape]):
                K.ensures_eq(f"vector_solve_is_component_wise[{comp}]{list(c)}", uv[(comp,) + c], e[c])


@unit("fast_diag_native_neumann_problem", props=("C11",), kernels=False, native_check=True,
      configs=[dict(shape=(2, 2), precision="double"), dict(shape=(7, 4), precision="double"), dict(shape=(5, 9), precision="single"),
               dict(shape=(2, 3, 5), precision="double"), dict(shape=(6, 4, 3), precision="single"), dict(shape=(16, 9, 12), precision="double")],
      desc="BOUNDED native stand-in: assembly, eigen-decomposition (LAPACK) and lemma M9 on small non-cubic grids")
def fast_diag_native_neumann_problem(K, shape, precision):
    shape = tuple(shape)
    if K.mode == "sym":
        return None
    real_t = np.float64 if precision == "double" else np.float32
    tol = 1e-9 if precision == "double" else 2e-3
    K.tol = tol
    dim = len(shape)
    dx = K.real("dx", pos=True)
    cls = K.repo(f"{MOD[dim]}:FastDiagPoissonSolver{dim}D")
    kw = {f"grid_size_{a}": n for a, n in zip("zyx"[3 - dim:], shape)}
    sol = cls(dx=real_t(dx), real_t=real_t, **kw)
    f = K.rng.normal(size=shape).astype(real_t)
    f0 = f.copy()
    u = np.zeros(shape, dtype=real_t)
    sol.solve(solution_field=u, rhs_field=f)
    K.ensures("rhs_field_untouched", np.array_equal(f, f0))
    K.ensures("solution_is_real_and_of_the_working_precision", u.dtype == real_t and np.isrealobj(u) and np.all(np.isfinite(u)))
    K.ensures_eq("solution_has_zero_mean", float(u.mean()) / (1.0 + float(np.abs(u).max())), 0.0)
    # second-order negative Laplacian with homogeneous Neumann conditions at the domain faces (ghost = mirror)
    up = np.pad(u.astype(np.float64), 1, mode="edge")
    lap = np.zeros(shape)
    core = tuple(slice(1, -1) for _ in shape)
    for a in range(dim):
        plus = tuple(slice(2, None) if b == a else slice(1, -1) for b in range(dim))
        minus = tuple(slice(None, -2) if b == a else slice(1, -1) for b in range(dim))
        lap += (2 * up[core] - up[plus] - up[minus]) / float(dx) ** 2
    resid = lap - (f0.astype(np.float64) - f0.astype(np.float64).mean())
    scale = 1.0 + float(np.abs(f0).max())
    c = K.cell(shape)
    K.ensures_eq("discrete_neumann_poisson_equation_holds", float(resid[c]) / scale, 0.0)
    K.ensures_eq("discrete_neumann_poisson_equation_holds_everywhere", float(np.abs(resid).max()) / scale, 0.0)
    if dim == 3:
        fv = K.rng.normal(size=(3,) + tuple(shape)).astype(real_t)
        uv = np.zeros_like(fv)
        sol.vector_field_solve(solution_vector_field=uv, rhs_vector_field=fv)
        ok = True
        for comp in range(3):
            one = np.zeros(shape, dtype=real_t)
            sol.solve(solution_field=one, rhs_field=fv[comp])
            ok = ok and np.array_equal(one, uv[comp])
        K.ensures("vector_solve_equals_three_scalar_solves", ok)
