"""L2: the real flow simulators (constructor + time_step) executed with SYMBOLIC grid size, domain
length, viscosity, density, dt, free stream, arbitrary public state and GARBAGE scratch buffers.

All Eulerian kernels run for real (their L1 contracts are the C13 units); the only callee replaced by
its contract is the Poisson solver: the stub records how it is constructed and called and leaves an
opaque solution `psi` behind (assumed contract: psi = G * rhs, proved for the FFT solver class in the
C03 units).  The post-state is compared, position class by position class, with the composition of
the documented operator sequence written as spec functions.

Serves C01 (the step), C15 (dependence obligations at every call site, with the simulators' real
buffer wiring), C16 (compute_stable_timestep forwards to the proved function), C18 (no hidden state:
results do not depend on scratch contents), C04 (reach of a step), C14 (see c_symmetry).
"""
import contextlib
import itertools
import sys

import numpy as np
from fractions import Fraction as Fr

from svx.contract import and_, ite_, not_, or_, sin_, unit

from .c_filter_rk import filter_spec
from .spec import AXES, AX, COMP, cdiff, curl2_inplane, curl2_outplane, curl3, div3, eno3_flux_divergence, lap, sh

FLOW_MODS = ["sopht.simulator.flow.flow_simulators", "sopht.simulator.flow.navier_stokes_flow_simulators",
             "sopht.simulator.flow.passive_transport_flow_simulators"]


class PoissonStub:
    """assumed contract of the Poisson solver classes, as seen by their callers"""
    calls = None

    def __init__(self, **kw):
        self.ctor = kw
        PoissonStub.instances.append(self)
        self.calls = []

    def _solve(self, solution, rhs, tag):
        from svx.field import View
        from svx.sym import Sym, mk_atom
        if not isinstance(solution, View) or not isinstance(rhs, View):
            raise TypeError("Poisson solver called with non-field arguments")
        k = len(self.calls)
        fam = f"psi{k}"
        self.calls.append(dict(solution=solution, rhs=rhs, rhs_upto=len(rhs.buf.log), tag=tag, fam=fam))
        spec = solution.spec

        def rhs_fn(idx, fam=fam, spec=spec):
            cell = [idx[s[1]] - s[2] for s in spec if s[0] == "ax"]
            return Sym.atom(mk_atom("cell", (fam, tuple(S_(c).key() for c in cell)), "real"))

        solution.buf.write(solution._box(), rhs_fn, "poisson_solve")

    def solve(self, solution_field, rhs_field):
        self._solve(solution_field, rhs_field, "solve")

    def vector_field_solve(self, solution_vector_field, rhs_vector_field):
        self._solve(solution_vector_field, rhs_vector_field, "vector_field_solve")


def S_(x):
    from svx.field import S
    return S(x)


@contextlib.contextmanager
def symbolic_simulator_modules():
    """np -> SymNp in the flow-simulator modules; Poisson solver classes -> contract stubs."""
    import sopht.numeric.eulerian_grid_ops as spne

    import importlib

    from svx import symnp
    for m in FLOW_MODS:
        importlib.import_module(m)
    saved_np = {m: sys.modules[m].np for m in FLOW_MODS}
    names = ["UnboundedPoissonSolverPYFFTW2D", "UnboundedPoissonSolverPYFFTW3D", "FastDiagPoissonSolver3D"]
    saved_cls = {n: getattr(spne, n) for n in names}
    PoissonStub.instances = []
    symnp.AMAX_LOG.clear()
    try:
        for m in FLOW_MODS:
            sys.modules[m].np = symnp.SymNp()
        for n in names:
            setattr(spne, n, type(n + "Stub", (PoissonStub,), {"kind": n}))
        yield
    finally:
        for m, v in saved_np.items():
            sys.modules[m].np = v
        for n, v in saved_cls.items():
            setattr(spne, n, v)


def check_stable_timestep_forwarding(K, sim, dim, dx, nu, cfl, after_step=False):
    """C16 at the simulator level: compute_stable_timestep(dt_prefac) must hand the WHOLE velocity
    field, a grid-shaped scratch array, the simulator's dx / cfl / viscosity / dimension to the
    (separately proved) compute_advection_diffusion_stable_timestep and scale its result by dt_prefac."""
    sym = K.mode == "sym"
    calls = []
    # after_step: the same contract once a time step has been taken (call history): the recommended step may depend
    # on the public state only (C18: nothing remembered from earlier steps or earlier recommendations)
    tag = "_after_a_step" if after_step else ""
    props = ("C16", "C18") if after_step else ("C16",)
    if sym:
        from svx.field import _same_spec
        from svx.sym import Sym
        ret = Sym.R("stable_dt_of_callee" + tag)
    else:
        ret = 0.37109375  # replay on the compiled code: the callee is recorded the same way, with real arrays

    def summary(**kw):
        calls.append(kw)
        return ret

    import importlib
    for m in FLOW_MODS:
        importlib.import_module(m)
    mods = [sys.modules[m] for m in FLOW_MODS if hasattr(sys.modules[m], "compute_advection_diffusion_stable_timestep")]
    saved = [(m, m.compute_advection_diffusion_stable_timestep) for m in mods]
    prefac = K.real("dt_prefac" + tag, pos=True)
    try:
        for m in mods:
            m.compute_advection_diffusion_stable_timestep = summary
        out = sim.compute_stable_timestep(dt_prefac=prefac)
    finally:
        for m, f in saved:
            m.compute_advection_diffusion_stable_timestep = f
    K.ensures("stable_timestep_calls_the_proved_function_once" + tag, len(calls) == 1, props=props)
    if len(calls) != 1:
        return
    kw = calls[0]
    v = kw.get("velocity_field")
    mag = kw.get("velocity_magnitude_field")
    if sym:
        whole = v is not None and v.buf is sim.velocity_field.buf and _same_spec(v.spec, sim.velocity_field.buf.full_view().spec)
        ok_mag = mag is not None and mag.buf is not sim.velocity_field.buf and mag.ndim == dim and all(
            S_(a).same(S_(b)) for a, b in zip(mag.shape, sim.velocity_field.shape[1:]))
    else:
        u = sim.velocity_field
        whole = (isinstance(v, np.ndarray) and v.shape == u.shape and v.strides == u.strides
                 and v.__array_interface__["data"][0] == u.__array_interface__["data"][0])
        ok_mag = isinstance(mag, np.ndarray) and mag.shape == u.shape[1:] and not np.shares_memory(mag, u)
    K.ensures("stable_timestep_sees_the_whole_velocity_field" + tag, whole, props=props)
    K.ensures("stable_timestep_scratch_is_grid_shaped_and_disjoint" + tag, ok_mag, props=props)
    K.ensures_eq("stable_timestep_dx" + tag, kw.get("dx"), dx, props=props)
    K.ensures_eq("stable_timestep_viscosity" + tag, kw.get("kinematic_viscosity"), nu, props=props)
    K.ensures_eq("stable_timestep_cfl" + tag, kw.get("cfl"), cfl, props=props)
    K.ensures("stable_timestep_dimension" + tag, kw.get("grid_dim") == dim, props=props)
    K.ensures_eq("stable_timestep_scales_with_prefactor" + tag, out, ret * prefac, props=props)


def position_classes(K, c, shape, R, tier_full=False):
    """finite complete partition of the cells of a grid with n_a >= 2R+1 per axis:
    c_a = k (k < R) | R <= c_a < n_a - R | c_a = n_a - 1 - k (k < R).  Quick: mid + one axis at a time."""
    dim = len(shape)
    per_axis = [("mid", None)] + [("lo", k) for k in range(R)] + [("hi", k) for k in range(R)]
    for combo in itertools.product(per_axis, repeat=dim):
        off_mid = [x for x in combo if x[0] != "mid"]
        if not tier_full and len(off_mid) > 1:
            continue
        guard, tag = [], []
        for a, (kind, k) in enumerate(combo):
            if kind == "mid":
                guard.append(and_(c[a] >= R, c[a] < shape[a] - R))
                tag.append("m")
            elif kind == "lo":
                guard.append(c[a] == k)
                tag.append(f"{k}")
            else:
                guard.append(c[a] == shape[a] - 1 - k)
                tag.append(f"-{k + 1}")
        yield ",".join(tag), and_(*guard)


def inside(c, shape, g):
    return and_(*[and_(ci >= g, ci < n - g) for ci, n in zip(c, shape)])


def memo_fn(f):
    memo = {}

    def g(c):
        key = tuple(S_(x).key() for x in c)
        if key not in memo:
            memo[key] = f(tuple(c))
        return memo[key]
    return g


def op_region(f_new, f_old, shape, g):
    """value f_new(c) on int_g, f_old(c) elsewhere (region test decided under the class facts)"""
    return memo_fn(lambda c: ite_(inside(c, shape, g), f_new(c), f_old(c)))


def penalise_spec(f, shape, w, dx, dim):
    """boundary damping with the simulator's cell-centre coordinates: clamp to the inner edge and
    multiply by sin(pi/2 * k / w) per axis, k = distance (in cells) from the outermost layer."""
    import math

    from svx.sym import Sym
    if w == 0:
        return f
    pi = Sym.pi() if isinstance(dx, Sym) else math.pi

    def g(c):
        src, factor = list(c), 1
        for a in range(dim):
            n = shape[a]
            front, back = c[a] < w, c[a] >= n - w
            src[a] = ite_(front, w - 1, ite_(back, n - w, c[a]))
            factor = factor * ite_(front, sin_(pi / 2 * c[a] / w), ite_(back, sin_(pi / 2 * (n - 1 - c[a]) / w), 1))
        return f(tuple(src)) * factor
    return memo_fn(g)


def havoc_named(K, view, name):
    """public state: arbitrary content under a stable name (so replays can set it)"""
    from svx.sym import Sym, mk_atom
    buf = view.buf
    spec = view.spec

    def rhs(idx, spec=spec):
        cell = [idx[s[1]] - s[2] for s in spec if s[0] == "ax"]
        return Sym.atom(mk_atom("cell", (name, tuple(S_(c).key() for c in cell)), "real"))

    buf.write(view._box(), rhs, "state:" + name)
    return lambda c: Sym.atom(mk_atom("cell", (name, tuple(S_(x).key() for x in c)), "real"))


def build_simulator(K, clsname, shape, ctor_kwargs):
    """constructs the real simulator: symbolically (np rebound, Poisson solver by contract) or natively"""
    cls = K.repo(clsname)
    if K.mode == "sym":
        from svx.symnp import SymReal64
        return cls(grid_size=shape, real_t=SymReal64, num_threads=4, **ctor_kwargs)
    import numpy as np
    return cls(grid_size=tuple(int(n) for n in shape), real_t=K.real_t, num_threads=1, **ctor_kwargs)


def set_state(K, arr, name):
    """arbitrary public state under a stable name; returns its reader (old values)"""
    if K.mode == "sym":
        return havoc_named(K, arr, name)
    init = K.field(name, arr.shape)
    arr[...] = init
    saved = init.copy()

    def rd(c):
        c = tuple(int(i) for i in c)
        if any(i < 0 or i >= n for i, n in zip(c, saved.shape)):
            return float("nan")
        return float(saved[c])
    return rd


def scratch(K, arr):
    if K.mode == "sym":
        K.havoc(arr)
    else:
        K.havoc(arr)


def sim_context(K):
    return symbolic_simulator_modules() if K.mode == "sym" else contextlib.nullcontext()


def _ns2d_cfgs():
    return [dict(with_forcing=f, with_free_stream=s, width=w) for f in (False, True) for s in (False, True)
            for w in (0, 1, 2, 3, 4)]


@unit("navier_stokes_2d_time_step", props=("C01", "C18"), extra_props=("C16",), configs=_ns2d_cfgs(),
      assumes=("Poisson solver contract: solve(solution, rhs) overwrites all of `solution` with G*rhs and leaves rhs "
               "untouched (proved for the FFT solver class in the C03 units)",
               "grid extents n >= 2R+1 with R = reach of the step (position classes); smaller grids: bounded native runs"))
def navier_stokes_2d_time_step(K, with_forcing, with_free_stream, width):
    sym = K.mode == "sym"
    R = 4 + max(width, 1)
    ny, nx = K.ext("ny", lo=2 * R + 1), K.ext("nx", lo=2 * R + 1)
    shape = (ny, nx)
    L, nu, rho, dt = K.real("x_range", pos=True), K.real("nu", pos=True), K.real("rho", pos=True), K.real("dt", pos=True)
    if not sym:
        dt = dt * 0.05 * L / nx  # keep the native replay in a numerically tame regime
    t0 = K.real("time0")
    U = [K.real("U_x"), K.real("U_y")]
    cfl = K.real("cfl", pos=True)
    with sim_context(K):
        sim = build_simulator(K, "sopht.simulator.flow.navier_stokes_flow_simulators:UnboundedNavierStokesFlowSimulator2D", shape,
                              dict(x_range=L, kinematic_viscosity=nu, cfl=cfl, time=t0, with_forcing=with_forcing,
                                   with_free_stream_flow=with_free_stream, flow_density=rho, penalty_zone_width=width))
        dx = L / nx
        K.ensures_eq("dx_is_x_range_over_nx", sim.dx, dx)
        check_stable_timestep_forwarding(K, sim, 2, dx, nu, cfl)
        # arbitrary public state, garbage scratch
        w0 = set_state(K, sim.vorticity_field, "vorticity0")
        u0 = set_state(K, sim.velocity_field, "velocity0")
        f0 = set_state(K, sim.eul_grid_forcing_field, "forcing0") if with_forcing else None
        scratch(K, sim.buffer_scalar_field)
        scratch(K, sim.stream_func_field)
        kw = dict(free_stream_velocity=U) if with_free_stream else {}
        sim.time_step(dt, **kw)
        check_stable_timestep_forwarding(K, sim, 2, dx, nu, cfl, after_step=True)
    if sym:
        # ---- the Poisson solver is constructed and called as its contract requires ---------------------
        solver = PoissonStub.instances[0]
        K.ensures("solver_constructed_for_this_grid", and_(S_(solver.ctor["grid_size_y"]) == ny, S_(solver.ctor["grid_size_x"]) == nx,
                                                          S_(solver.ctor["x_range"]) == L))
        K.ensures("one_solve_per_step", len(solver.calls) == 1)
        call = solver.calls[-1]
        K.ensures("solve_writes_stream_function_from_vorticity",
                  call["solution"].buf is sim.stream_func_field.buf and call["rhs"].buf is sim.vorticity_field.buf)
        from svx.sym import Sym, mk_atom
        psi = lambda c: Sym.atom(mk_atom("cell", (call["fam"], tuple(S_(x).key() for x in c)), "real"))
    else:
        psi = lambda c: K.value(sim.stream_func_field, c)
    K.ensures_eq("time_advances_by_dt", sim.time, t0 + dt)

    def spec():
        """the documented operator sequence; built afresh inside every position class because the
        region tests are decided (and memoised) under that class' facts"""
        vel = {"x": lambda c: u0((0,) + tuple(c)), "y": lambda c: u0((1,) + tuple(c))}
        w1 = w0
        if with_forcing:
            fx, fy = (lambda c: f0((0,) + tuple(c))), (lambda c: f0((1,) + tuple(c)))
            w1 = op_region(lambda c: w0(c) + dt / (2 * dx * rho) * curl2_inplane(fx, fy, c), w0, shape, 1)
        w2 = op_region(lambda c: w1(c) - dt / dx * eno3_flux_divergence(w1, vel, c, 2), w1, shape, 2)
        w3 = op_region(lambda c: w2(c) + nu * dt / dx**2 * lap(w2, c, 2), w2, shape, 1)
        return penalise_spec(w3, shape, width, dx, 2)

    c = K.cell(shape)
    for tag, guard in position_classes(K, c, shape, R, tier_full=True):
        for _ in K.case(guard):
            w4 = spec()
            K.ensures_eq(f"vorticity_is_documented_operator_sequence[{tag}]", K.value(sim.vorticity_field, c), w4(c))
            if sym:
                K.ensures_eq(f"poisson_rhs_is_the_final_vorticity[{tag}]", call["rhs"].at(c, call["rhs_upto"]), w4(c))
            cu = curl2_outplane(psi, c)
            for i in range(2):
                expect = ite_(inside(c, shape, 1), Fr(1, 2) / dx * cu[i], 0) + (U[i] if with_free_stream else 0)
                K.ensures_eq(f"velocity_is_curl_of_stream_function_plus_free_stream[{i},{tag}]",
                             K.value(sim.velocity_field, (i,) + c), expect)
            if with_forcing:
                for i in range(2):
                    K.ensures_eq(f"forcing_is_zero_on_return[{i},{tag}]", K.value(sim.eul_grid_forcing_field, (i,) + c), 0)


def _native_step_2d(K, with_forcing, with_free_stream, width):
    """bounded native stand-in / replay: the same clauses on the real simulator with the real solver
    are evaluated by tools in c_native_steps (kept separate: needs pyfftw); nothing to do here."""
    return None


# =============================================================================================
# 3-D Navier-Stokes step (rotational form)
# =============================================================================================
def _ns3d_cfgs():
    out = []
    filters = [None] + [(t, k) for t in ("multiplicative", "convolution") for k in (1, 2, 3)]
    for f in (False, True):
        for s in (False, True):
            for w in (0, 1, 2, 3, 4):
                for flt in filters:
                    for solver in ("greens_function_convolution", "fast_diagonalisation"):
                        cfg = dict(with_forcing=f, with_free_stream=s, width=w, filt=flt, solver=solver, classes="axes")
                        # quick tier: all (forcing, free stream, width) combinations without filter; the other
                        # solver at the default width; filter orders 1-2 with everything switched on (polynomial
                        # expansion of the filtered rotational-form update is expensive: few position classes)
                        if flt is None:
                            quick = solver == "greens_function_convolution" or w == 2
                        else:
                            cfg["classes"] = "few"  # filtered steps: middle class + four boundary classes
                            quick = flt[1] <= 2 and w == 2 and f and s and solver == "greens_function_convolution"
                        if not quick:
                            cfg["_tier"] = "thorough"
                        out.append(cfg)
    return out


@unit("navier_stokes_3d_time_step", props=("C01", "C18"), extra_props=("C16",), configs=_ns3d_cfgs(),
      assumes=("Poisson solver contract: vector_field_solve(solution, rhs) overwrites all of `solution` with the "
               "component-wise solve of rhs and leaves rhs untouched (C03 / C11 units)",
               "grid extents n >= 2R+1 with R = reach of the step (position classes)"))
def navier_stokes_3d_time_step(K, with_forcing, with_free_stream, width, filt, solver, classes="axes"):
    sym = K.mode == "sym"
    forder = filt[1] if filt else 0
    R = 3 + forder + max(width, 1)
    shape = tuple(K.ext(n, lo=2 * R + 1) for n in ("nz", "ny", "nx"))
    nz, ny, nx = shape
    L, nu, rho, dt = K.real("x_range", pos=True), K.real("nu", pos=True), K.real("rho", pos=True), K.real("dt", pos=True)
    if not sym:
        dt = dt * 0.05 * L / nx
    t0 = K.real("time0")
    U = [K.real("U_x"), K.real("U_y"), K.real("U_z")]
    cfl = K.real("cfl", pos=True)
    kwargs = dict(penalty_zone_width=width)
    if filt:
        kwargs["filter_setting_dict"] = {"order": filt[1], "type": filt[0]}
    with sim_context(K):
        sim = build_simulator(K, "sopht.simulator.flow.navier_stokes_flow_simulators:UnboundedNavierStokesFlowSimulator3D", shape,
                              dict(x_range=L, kinematic_viscosity=nu, cfl=cfl, time=t0, with_forcing=with_forcing,
                                   with_free_stream_flow=with_free_stream, flow_density=rho, filter_vorticity=bool(filt),
                                   poisson_solver_type=solver, **kwargs))
        dx = L / nx
        K.ensures_eq("dx_is_x_range_over_nx", sim.dx, dx)
        check_stable_timestep_forwarding(K, sim, 3, dx, nu, cfl)
        w0 = set_state(K, sim.vorticity_field, "vorticity0")
        u0 = set_state(K, sim.velocity_field, "velocity0")
        f0 = set_state(K, sim.eul_grid_forcing_field, "forcing0") if with_forcing else None
        scratch(K, sim.buffer_vector_field)
        scratch(K, sim.stream_func_field)
        kw = dict(free_stream_velocity=U) if with_free_stream else {}
        sim.time_step(dt, **kw)
        check_stable_timestep_forwarding(K, sim, 3, dx, nu, cfl, after_step=True)
    if sym:
        from svx.sym import Sym, mk_atom
        stub = PoissonStub.instances[0]
        if solver == "greens_function_convolution":
            K.ensures("solver_constructed_for_this_grid",
                      and_(S_(stub.ctor["grid_size_z"]) == nz, S_(stub.ctor["grid_size_y"]) == ny,
                           S_(stub.ctor["grid_size_x"]) == nx, S_(stub.ctor["x_range"]) == L, stub.kind == "UnboundedPoissonSolverPYFFTW3D"))
        else:
            K.ensures("solver_constructed_for_this_grid",
                      and_(S_(stub.ctor["grid_size_z"]) == nz, S_(stub.ctor["grid_size_y"]) == ny,
                           S_(stub.ctor["grid_size_x"]) == nx, S_(stub.ctor["dx"]) == dx, stub.kind == "FastDiagPoissonSolver3D"))
        K.ensures("one_vector_solve_per_step", len(stub.calls) == 1 and stub.calls[0]["tag"] == "vector_field_solve")
        call = stub.calls[-1]
        K.ensures("solve_writes_stream_function_from_vorticity",
                  call["solution"].buf is sim.stream_func_field.buf and call["rhs"].buf is sim.vorticity_field.buf)
        psi = lambda i: (lambda c: Sym.atom(mk_atom("cell", (call["fam"], tuple(S_(x).key() for x in (i,) + tuple(c))), "real")))
    else:
        psi = lambda i: (lambda c: K.value(sim.stream_func_field, (i,) + tuple(c)))
    K.ensures_eq("time_advances_by_dt", sim.time, t0 + dt)

    def comp(f, i):
        return lambda c: f((i,) + tuple(c))

    def spec():
        w = [comp(w0, i) for i in range(3)]
        u = [comp(u0, i) for i in range(3)]
        if with_forcing:
            f = [comp(f0, i) for i in range(3)]
            wf = w
            w = [op_region((lambda c, i=i, wf=wf: wf[i](c) + dt / (2 * dx * rho) * curl3(f[0], f[1], f[2], c)[i]), wf[i], shape, 1)
                 for i in range(3)]
        # rotational form: omega += dt/(2dx) curl_h(u x omega)
        wa = w
        cross = [memo_fn(lambda c, wa=wa: u[1](c) * wa[2](c) - u[2](c) * wa[1](c)),
                 memo_fn(lambda c, wa=wa: u[2](c) * wa[0](c) - u[0](c) * wa[2](c)),
                 memo_fn(lambda c, wa=wa: u[0](c) * wa[1](c) - u[1](c) * wa[0](c))]
        w = [op_region((lambda c, i=i, wa=wa: wa[i](c) + dt / (2 * dx) * curl3(cross[0], cross[1], cross[2], c)[i]), wa[i], shape, 1)
             for i in range(3)]
        wd = w
        w = [op_region((lambda c, i=i, wd=wd: wd[i](c) + nu * dt / dx**2 * lap(wd[i], c, 3)), wd[i], shape, 1) for i in range(3)]
        if filt:
            w = [memo_fn(filter_spec(w[i], shape, filt[1], filt[0])) for i in range(3)]
        return [penalise_spec(w[i], shape, width, dx, 3) for i in range(3)]

    c = K.cell(shape)
    for tag, guard in position_classes(K, c, shape, R):
        if classes == "few" and tag not in ("m,m,m", "m,m,0", "m,m,-1", "m,1,m", "-2,m,m"):
            continue
        for _ in K.case(guard):
            wfin = spec()
            cu = curl3(psi(0), psi(1), psi(2), c)
            for i in range(3):
                K.ensures_eq(f"vorticity_is_documented_operator_sequence[{i},{tag}]", K.value(sim.vorticity_field, (i,) + c), wfin[i](c))
                if sym:
                    K.ensures_eq(f"poisson_rhs_is_the_final_vorticity[{i},{tag}]", call["rhs"].at((i,) + c, call["rhs_upto"]), wfin[i](c))
                expect = ite_(inside(c, shape, 1), Fr(1, 2) / dx * cu[i], 0) + (U[i] if with_free_stream else 0)
                K.ensures_eq(f"velocity_is_curl_of_stream_function_plus_free_stream[{i},{tag}]",
                             K.value(sim.velocity_field, (i,) + c), expect)
                if with_forcing:
                    K.ensures_eq(f"forcing_is_zero_on_return[{i},{tag}]", K.value(sim.eul_grid_forcing_field, (i,) + c), 0)


# =============================================================================================
# passive transport
# =============================================================================================
@unit("passive_transport_time_step", props=("C01", "C18"), extra_props=("C16",),
      configs=[dict(dim=2, field_type="scalar"), dict(dim=3, field_type="scalar"), dict(dim=3, field_type="vector")])
def passive_transport_time_step(K, dim, field_type):
    sym = K.mode == "sym"
    R = 4
    shape = tuple(K.ext(n, lo=2 * R + 1) for n in ("nz", "ny", "nx")[3 - dim:])
    L, nu, dt, t0 = K.real("x_range", pos=True), K.real("nu", pos=True), K.real("dt", pos=True), K.real("time0")
    if not sym:
        dt = dt * 0.05 * L / shape[-1]
    with sim_context(K):
        cfl = K.real("cfl", pos=True)
        sim = build_simulator(K, "sopht.simulator.flow.passive_transport_flow_simulators:PassiveTransportFlowSimulator", shape,
                              dict(kinematic_viscosity=nu, grid_dim=dim, x_range=L, cfl=cfl, time=t0, field_type=field_type))
        dx = L / shape[-1]
        K.ensures_eq("dx_is_x_range_over_nx", sim.dx, dx)
        check_stable_timestep_forwarding(K, sim, dim, dx, nu, cfl)
        p0 = set_state(K, sim.primary_field, "primary0")
        u0 = set_state(K, sim.velocity_field, "velocity0")
        scratch(K, sim.buffer_scalar_field)
        sim.time_step(dt)
        check_stable_timestep_forwarding(K, sim, dim, dx, nu, cfl, after_step=True)
    K.ensures_eq("time_advances_by_dt", sim.time, t0 + dt)
    if sym:
        K.ensures("no_poisson_solver_involved", len(PoissonStub.instances) == 0)
    vel = {ax: (lambda c, ax=ax: u0((COMP[ax],) + tuple(c))) for ax in AXES[dim]}
    pres = [(i,) for i in range(3)] if field_type == "vector" else [()]

    def spec(pre):
        f0 = lambda c: p0(pre + tuple(c))
        f1 = op_region(lambda c: f0(c) - dt / dx * eno3_flux_divergence(f0, vel, c, dim), f0, shape, 2)
        return op_region(lambda c: f1(c) + nu * dt / dx**2 * lap(f1, c, dim), f1, shape, 1)

    c = K.cell(shape)
    for tag, guard in position_classes(K, c, shape, R, tier_full=(dim == 2)):
        for _ in K.case(guard):
            for pre in pres:
                K.ensures_eq(f"field_is_advected_then_diffused{list(pre)}[{tag}]", K.value(sim.primary_field, pre + c), spec(pre)(c))
            for i in range(dim):
                K.ensures_eq(f"velocity_untouched[{i},{tag}]", K.value(sim.velocity_field, (i,) + c), u0((i,) + c))


@unit("init_domain_coordinates", props=("C05", "C06", "C01"), configs=[dict(dim=2), dict(dim=3)], kernels=False)
def init_domain_coordinates(K, dim):
    """the simulators' own cell-centre coordinate field (real FlowSimulator._init_domain): spacing
    dx = x_range / n_x on EVERY axis, x along the LAST array axis, component d of position_field is
    the coordinate of axis d (x = 0), cell centres at (index + 1/2) dx."""
    sym = K.mode == "sym"
    shape = tuple(K.ext(n, lo=2) for n in ("nz", "ny", "nx")[3 - dim:])
    L, nu = K.real("x_range", pos=True), K.real("nu", pos=True)
    cls = K.repo("sopht.simulator.flow.passive_transport_flow_simulators:PassiveTransportFlowSimulator")
    K.functions.append("sopht.simulator.flow.flow_simulators:FlowSimulator._init_domain")
    if sym:
        from svx.symnp import SymReal64, as_lazy
        with symbolic_simulator_modules():
            sim = cls(kinematic_viscosity=nu, grid_dim=dim, grid_size=shape, x_range=L, real_t=SymReal64, num_threads=1)
        pos = as_lazy(sim.position_field)
        at = pos.at
        pshape = pos.shape
        same = lambda a, b: S_(a).same(S_(b))
    else:  # replay on the compiled code
        sim = cls(kinematic_viscosity=nu, grid_dim=dim, grid_size=tuple(int(n) for n in shape), x_range=L, real_t=K.real_t,
                  num_threads=1)
        at = lambda idx: float(sim.position_field[tuple(int(i) for i in idx)])
        pshape = sim.position_field.shape
        same = lambda a, b: int(a) == int(b)
    dx = L / shape[-1]
    K.ensures_eq("dx_is_x_range_over_nx", sim.dx, dx)
    K.ensures_eq("y_range", sim.y_range, dx * shape[-2])
    if dim == 3:
        K.ensures_eq("z_range", sim.z_range, dx * shape[-3])
    K.ensures("position_field_shape", len(pshape) == dim + 1 and pshape[0] == dim and all(
        same(a, b) for a, b in zip(pshape[1:], shape)))
    c = K.cell(shape)
    for d in range(dim):  # component d: x=0 varies along the last array axis
        K.ensures_eq(f"component_{d}_is_cell_centre_coordinate_of_axis_{'xyz'[d]}", at((d,) + tuple(c)),
                     (c[dim - 1 - d] + Fr(1, 2)) * dx)


# =============================================================================================
# C12: the simulator's own divergence monitor (get_vorticity_divergence_l2_norm)
# =============================================================================================
@unit("vorticity_divergence_monitor_3d", props=("C12",), kernels=True,
      configs=[dict(after_step=False)],
      assumes=("np.linalg.norm by contract: a non-negative real that is a function of its argument's content at the call",))
def vorticity_divergence_monitor_3d(K, after_step):
    """get_vorticity_divergence_l2_norm(): the monitored field is the library's centred divergence of the CURRENT
    vorticity (zero on the boundary ring), whatever the scratch buffer held before; the result is its l2 norm
    times dx^(3/2); the public state is not modified."""
    sym = K.mode == "sym"
    shape = tuple(K.ext(n, lo=9) for n in ("nz", "ny", "nx"))
    nz, ny, nx = shape
    L, nu = K.real("x_range", pos=True), K.real("nu", pos=True)
    with sim_context(K):
        sim = build_simulator(K, "sopht.simulator.flow.navier_stokes_flow_simulators:UnboundedNavierStokesFlowSimulator3D", shape,
                              dict(x_range=L, kinematic_viscosity=nu, with_forcing=True))
        dx = L / nx
        if after_step:  # call history: a step has used (and dirtied) every scratch buffer before
            set_state(K, sim.vorticity_field, "vorticity_before")
            set_state(K, sim.velocity_field, "velocity_before")
            set_state(K, sim.eul_grid_forcing_field, "forcing_before")
            dt = K.real("dt", pos=True)
            sim.time_step(dt * 0.01 * L / nx if not sym else dt)
        w0 = set_state(K, sim.vorticity_field, "vorticity0")
        u0 = set_state(K, sim.velocity_field, "velocity0")
        scratch(K, sim.buffer_vector_field)
        if sym:
            from svx import symnp
            del symnp.NORM_LOG[:]
        res = sim.get_vorticity_divergence_l2_norm()
    c = K.cell(shape)
    comp = lambda i: (lambda cc: w0((i,) + tuple(cc)))
    K.ensures_eq("monitored_field_is_library_divergence_of_current_vorticity[interior]",
                 K.value(sim.buffer_scalar_field, c), Fr(1, 2) / dx * div3(comp(0), comp(1), comp(2), c),
                 when=K.interior(c, shape, 1))
    K.ensures_eq("monitored_field_is_zero_on_boundary_ring", K.value(sim.buffer_scalar_field, c), 0,
                 when=not_(K.interior(c, shape, 1)))
    for i in range(3):
        K.ensures_eq(f"vorticity_not_modified[{i}]", K.value(sim.vorticity_field, (i,) + c), w0((i,) + c))
        K.ensures_eq(f"velocity_not_modified[{i}]", K.value(sim.velocity_field, (i,) + c), u0((i,) + c))
    if sym:
        from svx import symnp
        K.ensures("one_norm_of_the_monitored_field",
                  len(symnp.NORM_LOG) == 1 and getattr(symnp.NORM_LOG[0][1], "buf", None) is sim.buffer_scalar_field.buf
                  and tuple(S_(n).key() for n in symnp.NORM_LOG[0][1].shape) == tuple(S_(n).key() for n in shape)
                  and symnp.NORM_LOG[0][2] == len(sim.buffer_scalar_field.buf.log))
        if symnp.NORM_LOG:
            K.ensures_eq("result_is_l2_norm_times_dx_to_the_three_halves", res, symnp.NORM_LOG[0][0] * dx * S_(dx).sqrt())
    else:
        import numpy as np
        K.ensures_eq("result_is_l2_norm_times_dx_to_the_three_halves", res,
                     float(np.linalg.norm(sim.buffer_scalar_field)) * float(dx) ** 1.5)
