"""L1 contracts of the Eulerian-grid kernel generators (DESIGN Appendix A.1 - A.3).

Every unit runs the REAL closure returned by the real generator in /repo on fields of symbolic
extent and states the strongest postcondition at a fully symbolic Skolem cell: closed form on the
documented region, ring value, frames.  Property tags: C13 (formula/region/frame), C20 (time-step
kernels), C15 obligations are generated automatically from every kernel call.
"""
from fractions import Fraction as Fr

from svx.contract import and_, ite_, not_, or_, unit

from .spec import (AXES, COMP, cdiff, curl2_inplane, curl2_outplane, curl3, div3, eno3_flux_divergence, lap,
                   reader, sh, stretching)


def gshape(K, dim):
    return tuple(K.ext(n) for n in ("nz", "ny", "nx")[3 - dim:])


def region(K, clause, val, c, shape, g, interior_val, ring_val, props=None):
    inside = K.interior(c, shape, g)
    K.ensures_eq(clause + "interior", val, interior_val, when=inside, props=props)
    K.ensures_eq(clause + "ring", val, ring_val, when=not_(inside), props=props)


DT = [dict(dim=d, field_type=t) for d in (2, 3) for t in ("scalar", "vector")]


# ----------------------------------------------------------------------------------------------
# A.1 element-wise algebra
# ----------------------------------------------------------------------------------------------
@unit("elementwise_sum", props=("C13",), configs=[dict(c, alias=a) for c in DT for a in (False, True)])
def elementwise_sum(K, dim, field_type, alias):
    shape = gshape(K, dim)
    if field_type == "vector":
        shape = (dim,) + shape
    k = K.gen(f"gen_elementwise_sum_pyst_kernel_{dim}d", field_type=field_type)
    f1, f2 = K.field("field_1", shape), K.field("field_2", shape)
    out = f1 if alias else K.field("sum_field", shape)
    K.run(k, sum_field=out, field_1=f1, field_2=f2)
    c = K.cell(shape)
    K.ensures_eq("all_cells", K.value(out, c), K.old(f1, c) + K.old(f2, c))
    K.unchanged("frame_field_2", f2)
    if not alias:
        K.unchanged("frame_field_1", f1)


@unit("set_fixed_val", props=("C13",), configs=DT)
def set_fixed_val(K, dim, field_type):
    shape = gshape(K, dim)
    k = K.gen(f"gen_set_fixed_val_pyst_kernel_{dim}d", field_type=field_type)
    if field_type == "scalar":
        f, v = K.field("field", shape), K.real("fixed_val")
        K.run(k, field=f, fixed_val=v)
        K.ensures_eq("all_cells", K.value(f, K.cell(shape)), v)
    else:
        f = K.field("vector_field", (dim,) + shape)
        vals = [K.real(f"fixed_val_{i}") for i in range(dim)]
        K.run(k, vector_field=f, fixed_vals=vals)
        c = K.cell(shape)
        for i in range(dim):
            K.ensures_eq(f"all_cells_comp{i}", K.value(f, (i,) + c), vals[i])


@unit("elementwise_copy", props=("C13",), configs=[dict(dim=2), dict(dim=3)])
def elementwise_copy(K, dim):
    shape = gshape(K, dim)
    k = K.gen(f"gen_elementwise_copy_pyst_kernel_{dim}d")
    f, r = K.field("field", shape), K.field("rhs_field", shape)
    K.run(k, field=f, rhs_field=r)
    c = K.cell(shape)
    K.ensures_eq("all_cells", K.value(f, c), K.old(r, c))
    K.unchanged("frame_rhs", r)


@unit("elementwise_complex_product", props=("C13",), configs=[dict(dim=2), dict(dim=3)])
def elementwise_complex_product(K, dim):
    shape = gshape(K, dim)
    k = K.gen(f"gen_elementwise_complex_product_pyst_kernel_{dim}d")
    p = K.field("product_field", shape, kind="complex")
    a = K.field("field_1", shape, kind="complex")
    b = K.field("field_2", shape, kind="complex")
    K.run(k, product_field=p, field_1=a, field_2=b)
    c = K.cell(shape)
    ar, ai = K.old(a, c, part="re"), K.old(a, c, part="im")
    br, bi = K.old(b, c, part="re"), K.old(b, c, part="im")
    K.ensures_eq("real_part", K.value(p, c, part="re"), ar * br - ai * bi)
    K.ensures_eq("imag_part", K.value(p, c, part="im"), ar * bi + ai * br)
    K.unchanged("frame_field_1", a)
    K.unchanged("frame_field_2", b)


@unit("set_fixed_val_at_boundaries", props=("C13",),
      configs=[dict(c, width=w) for c in DT for w in (1, 2, 3)])
def set_fixed_val_at_boundaries(K, dim, field_type, width):
    shape = gshape(K, dim)
    k = K.gen(f"gen_set_fixed_val_at_boundaries_pyst_kernel_{dim}d", width=width, field_type=field_type)
    c = K.cell(shape)
    if field_type == "scalar":
        f, v = K.field("field", shape), K.real("fixed_val")
        K.run(k, field=f, fixed_val=v)
        region(K, "", K.value(f, c), c, shape, width, K.old(f, c), v)
    else:
        f = K.field("vector_field", (dim,) + shape)
        vals = [K.real(f"fixed_val_{i}") for i in range(dim)]
        K.run(k, vector_field=f, fixed_vals=vals)
        for i in range(dim):
            region(K, f"comp{i}_", K.value(f, (i,) + c), c, shape, width, K.old(f, (i,) + c), vals[i])


@unit("set_fixed_val_at_boundaries_bad_width", props=("C13",),
      configs=[dict(dim=d, width=w) for d in (2, 3) for w in (0, -1, 1.5)])
def set_fixed_val_at_boundaries_bad_width(K, dim, width):
    K.expect_raises("rejects_width", (ValueError,), K.gen,
                    f"gen_set_fixed_val_at_boundaries_pyst_kernel_{dim}d", width=width)


@unit("add_fixed_val", props=("C13",), configs=[dict(c, alias=a) for c in DT for a in (False, True)])
def add_fixed_val(K, dim, field_type, alias):
    shape = gshape(K, dim)
    k = K.gen(f"gen_add_fixed_val_pyst_kernel_{dim}d", field_type=field_type)
    c = K.cell(shape)
    if field_type == "scalar":
        f, v = K.field("field", shape), K.real("fixed_val")
        out = f if alias else K.field("sum_field", shape)
        K.run(k, sum_field=out, field=f, fixed_val=v)
        K.ensures_eq("all_cells", K.value(out, c), K.old(f, c) + v)
    else:
        f = K.field("vector_field", (dim,) + shape)
        out = f if alias else K.field("sum_field", (dim,) + shape)
        vals = [K.real(f"fixed_val_{i}") for i in range(dim)]
        K.run(k, sum_field=out, vector_field=f, fixed_vals=vals)
        for i in range(dim):
            K.ensures_eq(f"all_cells_comp{i}", K.value(out, (i,) + c), K.old(f, (i,) + c) + vals[i])
    if not alias:
        K.unchanged("frame_input", f)


@unit("elementwise_saxpby", props=("C13",), configs=[dict(c, alias=a) for c in DT for a in (0, 1, 2)])
def elementwise_saxpby(K, dim, field_type, alias):
    shape = gshape(K, dim)
    if field_type == "vector":
        shape = (dim,) + shape
    k = K.gen(f"gen_elementwise_saxpby_pyst_kernel_{dim}d", field_type=field_type)
    f1, f2 = K.field("field_1", shape), K.field("field_2", shape)
    out = (K.field("sum_field", shape), f1, f2)[alias]
    a, b = K.real("field_1_prefac"), K.real("field_2_prefac")
    K.run(k, sum_field=out, field_1=f1, field_2=f2, field_1_prefac=a, field_2_prefac=b)
    c = K.cell(shape)
    K.ensures_eq("all_cells", K.value(out, c), a * K.old(f1, c) + b * K.old(f2, c))
    if alias != 1:
        K.unchanged("frame_field_1", f1)
    if alias != 2:
        K.unchanged("frame_field_2", f2)


@unit("elementwise_cross_product_3d", props=("C13",))
def elementwise_cross_product_3d(K):
    shape = gshape(K, 3)
    k = K.gen("gen_elementwise_cross_product_pyst_kernel_3d")
    r, a, b = (K.field(n, (3,) + shape) for n in ("result_field", "field_1", "field_2"))
    K.run(k, result_field=r, field_1=a, field_2=b)
    c = K.cell(shape)
    A = [K.old(a, (i,) + c) for i in range(3)]
    B = [K.old(b, (i,) + c) for i in range(3)]
    exp = (A[1] * B[2] - A[2] * B[1], A[2] * B[0] - A[0] * B[2], A[0] * B[1] - A[1] * B[0])
    for i in range(3):
        K.ensures_eq(f"comp{i}", K.value(r, (i,) + c), exp[i])
    K.unchanged("frame_field_1", a)
    K.unchanged("frame_field_2", b)


# ----------------------------------------------------------------------------------------------
# A.2 differential closures
# ----------------------------------------------------------------------------------------------
@unit("diffusion_flux", props=("C13",),
      configs=[dict(dim=2, field_type="scalar", reset=r) for r in (True, False)]
      + [dict(dim=3, field_type=t, reset=r) for t in ("scalar", "vector") for r in (True, False)])
def diffusion_flux(K, dim, field_type, reset):
    shape = gshape(K, dim)
    kw = dict(reset_ghost_zone=reset)
    if dim == 3:
        kw["field_type"] = field_type
    k = K.gen(f"gen_diffusion_flux_pyst_kernel_{dim}d", **kw)
    p = K.real("prefactor")
    c = K.cell(shape)
    if field_type == "scalar":
        flux, f = K.field("diffusion_flux", shape), K.field("field", shape)
        K.run(k, diffusion_flux=flux, field=f, prefactor=p)
        region(K, "", K.value(flux, c), c, shape, 1, p * lap(reader(K, f), c, dim),
               0 if reset else K.old(flux, c))
    else:
        flux, f = K.field("vector_field_diffusion_flux", (3,) + shape), K.field("vector_field", (3,) + shape)
        K.run(k, vector_field_diffusion_flux=flux, vector_field=f, prefactor=p)
        for i in range(3):
            region(K, f"comp{i}_", K.value(flux, (i,) + c), c, shape, 1, p * lap(reader(K, f, (i,)), c, 3),
                   0 if reset else K.old(flux, (i,) + c))
    K.unchanged("frame_field", f)


@unit("inplane_field_curl_2d", props=("C13",))
def inplane_field_curl_2d(K):
    shape = gshape(K, 2)
    k = K.gen("gen_inplane_field_curl_pyst_kernel_2d")
    curl, f, p = K.field("curl", shape), K.field("field", (2,) + shape), K.real("prefactor")
    K.run(k, curl=curl, field=f, prefactor=p)
    c = K.cell(shape)
    region(K, "", K.value(curl, c), c, shape, 1,
           p * curl2_inplane(reader(K, f, (0,)), reader(K, f, (1,)), c), K.old(curl, c))
    K.unchanged("frame_field", f)


@unit("outplane_field_curl_2d", props=("C13",), configs=[dict(reset=True), dict(reset=False)])
def outplane_field_curl_2d(K, reset):
    shape = gshape(K, 2)
    k = K.gen("gen_outplane_field_curl_pyst_kernel_2d", reset_ghost_zone=reset)
    curl, f, p = K.field("curl", (2,) + shape), K.field("field", shape), K.real("prefactor")
    K.run(k, curl=curl, field=f, prefactor=p)
    c = K.cell(shape)
    exp = curl2_outplane(reader(K, f), c)
    for i in range(2):
        region(K, f"comp{i}_", K.value(curl, (i,) + c), c, shape, 1, p * exp[i],
               0 if reset else K.old(curl, (i,) + c))
    K.unchanged("frame_field", f)


@unit("curl_3d", props=("C13",), configs=[dict(reset=True), dict(reset=False)])
def curl_3d(K, reset):
    shape = gshape(K, 3)
    k = K.gen("gen_curl_pyst_kernel_3d", reset_ghost_zone=reset)
    curl, f, p = K.field("curl", (3,) + shape), K.field("field", (3,) + shape), K.real("prefactor")
    K.run(k, curl=curl, field=f, prefactor=p)
    c = K.cell(shape)
    exp = curl3(reader(K, f, (0,)), reader(K, f, (1,)), reader(K, f, (2,)), c)
    for i in range(3):
        region(K, f"comp{i}_", K.value(curl, (i,) + c), c, shape, 1, p * exp[i],
               0 if reset else K.old(curl, (i,) + c))
    K.unchanged("frame_field", f)


@unit("divergence_3d", props=("C13",), configs=[dict(reset=True), dict(reset=False)])
def divergence_3d(K, reset):
    shape = gshape(K, 3)
    k = K.gen("gen_divergence_pyst_kernel_3d", reset_ghost_zone=reset)
    div, f, inv_dx = K.field("divergence", shape), K.field("field", (3,) + shape), K.real("inv_dx")
    K.run(k, divergence=div, field=f, inv_dx=inv_dx)
    c = K.cell(shape)
    region(K, "", K.value(div, c), c, shape, 1,
           Fr(1, 2) * inv_dx * div3(reader(K, f, (0,)), reader(K, f, (1,)), reader(K, f, (2,)), c),
           0 if reset else K.old(div, c))
    K.unchanged("frame_field", f)


@unit("update_vorticity_from_velocity_forcing", props=("C13",), configs=[dict(dim=2), dict(dim=3)])
def update_vorticity_from_velocity_forcing(K, dim):
    shape = gshape(K, dim)
    k = K.gen(f"gen_update_vorticity_from_velocity_forcing_pyst_kernel_{dim}d")
    p = K.real("prefactor")
    c = K.cell(shape)
    frc = K.field("velocity_forcing_field", (dim,) + shape)
    if dim == 2:
        w = K.field("vorticity_field", shape)
        K.run(k, vorticity_field=w, velocity_forcing_field=frc, prefactor=p)
        region(K, "", K.value(w, c), c, shape, 1,
               K.old(w, c) + p * curl2_inplane(reader(K, frc, (0,)), reader(K, frc, (1,)), c), K.old(w, c))
    else:
        w = K.field("vorticity_field", (3,) + shape)
        K.run(k, vorticity_field=w, velocity_forcing_field=frc, prefactor=p)
        exp = curl3(reader(K, frc, (0,)), reader(K, frc, (1,)), reader(K, frc, (2,)), c)
        for i in range(3):
            region(K, f"comp{i}_", K.value(w, (i,) + c), c, shape, 1, K.old(w, (i,) + c) + p * exp[i],
                   K.old(w, (i,) + c))
    K.unchanged("frame_forcing", frc)


@unit("update_vorticity_from_penalised_velocity", props=("C13",), configs=[dict(dim=2), dict(dim=3)])
def update_vorticity_from_penalised_velocity(K, dim):
    shape = gshape(K, dim)
    k = K.gen(f"gen_update_vorticity_from_penalised_velocity_pyst_kernel_{dim}d")
    p = K.real("prefactor")
    c = K.cell(shape)
    pen = K.field("penalised_velocity_field", (dim,) + shape)
    vel = K.field("velocity_field", (dim,) + shape)

    def diff(i):
        return lambda cc: K.old(pen, (i,) + tuple(cc)) - K.old(vel, (i,) + tuple(cc))

    if dim == 2:
        w = K.field("vorticity_field", shape)
        K.run(k, vorticity_field=w, penalised_velocity_field=pen, velocity_field=vel, prefactor=p)
        region(K, "", K.value(w, c), c, shape, 1, K.old(w, c) + p * curl2_inplane(diff(0), diff(1), c), K.old(w, c))
    else:
        w = K.field("vorticity_field", (3,) + shape)
        K.run(k, vorticity_field=w, penalised_velocity_field=pen, velocity_field=vel, prefactor=p)
        exp = curl3(diff(0), diff(1), diff(2), c)
        for i in range(3):
            region(K, f"comp{i}_", K.value(w, (i,) + c), c, shape, 1, K.old(w, (i,) + c) + p * exp[i],
                   K.old(w, (i,) + c))
    K.unchanged("frame_penalised", pen)
    K.unchanged("frame_velocity", vel)


def _omega(K, w):
    return {"x": reader(K, w, (0,)), "y": reader(K, w, (1,)), "z": reader(K, w, (2,))}


@unit("vorticity_stretching_flux_3d", props=("C13",))
def vorticity_stretching_flux_3d(K):
    shape = gshape(K, 3)
    k = K.gen("gen_vorticity_stretching_flux_pyst_kernel_3d")
    flux, w, u = (K.field(n, (3,) + shape) for n in
                  ("vorticity_stretching_flux_field", "vorticity_field", "velocity_field"))
    p = K.real("prefactor")
    K.run(k, vorticity_stretching_flux_field=flux, vorticity_field=w, velocity_field=u, prefactor=p)
    c = K.cell(shape)
    for i in range(3):
        region(K, f"comp{i}_", K.value(flux, (i,) + c), c, shape, 1,
               p * stretching(_omega(K, w), reader(K, u, (i,)), c), 0)
    K.unchanged("frame_vorticity", w)
    K.unchanged("frame_velocity", u)


def _vel(K, v, dim):
    return {ax: reader(K, v, (COMP[ax],)) for ax in AXES[dim]}


@unit("advection_flux_eno3", props=("C13",), configs=[dict(dim=2), dict(dim=3)])
def advection_flux_eno3(K, dim):
    shape = gshape(K, dim)
    k = K.gen(f"gen_advection_flux_conservative_eno3_pyst_kernel_{dim}d")
    flux, f, v = K.field("advection_flux", shape), K.field("field", shape), K.field("velocity", (dim,) + shape)
    inv_dx = K.real("inv_dx")
    K.run(k, advection_flux=flux, field=f, velocity=v, inv_dx=inv_dx)
    c = K.cell(shape)
    region(K, "", K.value(flux, c), c, shape, 2,
           K.old(flux, c) + inv_dx * eno3_flux_divergence(reader(K, f), _vel(K, v, dim), c, dim), K.old(flux, c))
    K.unchanged("frame_field", f)
    K.unchanged("frame_velocity", v)


# ----------------------------------------------------------------------------------------------
# A.3 time-step closures (C13 + C20)
# ----------------------------------------------------------------------------------------------
@unit("advection_timestep_eno3", props=("C13", "C20"),
      configs=[dict(dim=2, field_type="scalar"), dict(dim=3, field_type="scalar"), dict(dim=3, field_type="vector")])
def advection_timestep_eno3(K, dim, field_type):
    shape = gshape(K, dim)
    kw = dict(field_type=field_type) if dim == 3 else {}
    k = K.gen(f"gen_advection_timestep_euler_forward_conservative_eno3_pyst_kernel_{dim}d", **kw)
    flux, v = K.field("advection_flux", shape), K.field("velocity", (dim,) + shape)
    dt_by_dx = K.real("dt_by_dx")
    c = K.cell(shape)
    if field_type == "scalar":
        f = K.field("field", shape)
        K.run(k, field=f, advection_flux=flux, velocity=v, dt_by_dx=dt_by_dx)
        region(K, "field_", K.value(f, c), c, shape, 2,
               K.old(f, c) - dt_by_dx * eno3_flux_divergence(reader(K, f), _vel(K, v, dim), c, dim), K.old(f, c))
        last = reader(K, f)
    else:
        f = K.field("vector_field", (3,) + shape)
        K.run(k, vector_field=f, advection_flux=flux, velocity=v, dt_by_dx=dt_by_dx)
        for i in range(3):
            region(K, f"field_comp{i}_", K.value(f, (i,) + c), c, shape, 2,
                   K.old(f, (i,) + c) - dt_by_dx * eno3_flux_divergence(reader(K, f, (i,)), _vel(K, v, dim), c, dim),
                   K.old(f, (i,) + c))
        last = reader(K, f, (2,))
    # scratch flux buffer: fully overwritten, independent of its prior content
    region(K, "scratch_", K.value(flux, c), c, shape, 2,
           -dt_by_dx * eno3_flux_divergence(last, _vel(K, v, dim), c, dim), 0)
    K.unchanged("frame_velocity", v)


@unit("diffusion_timestep", props=("C13", "C20"),
      configs=[dict(dim=2, field_type="scalar"), dict(dim=3, field_type="scalar"), dict(dim=3, field_type="vector")])
def diffusion_timestep(K, dim, field_type):
    shape = gshape(K, dim)
    kw = dict(field_type=field_type) if dim == 3 else {}
    k = K.gen(f"gen_diffusion_timestep_euler_forward_pyst_kernel_{dim}d", **kw)
    mu = K.real("nu_dt_by_dx2")
    c = K.cell(shape)
    if field_type == "scalar":
        f, flux = K.field("field", shape), K.field("diffusion_flux", shape)
        K.run(k, field=f, diffusion_flux=flux, nu_dt_by_dx2=mu)
        region(K, "field_", K.value(f, c), c, shape, 1, K.old(f, c) + mu * lap(reader(K, f), c, dim), K.old(f, c))
        region(K, "scratch_", K.value(flux, c), c, shape, 1, mu * lap(reader(K, f), c, dim), 0)
    else:
        # the flux buffer of the vector variant is one SCALAR scratch array reused per component
        f, flux = K.field("vector_field", (3,) + shape), K.field("diffusion_flux", shape)
        K.run(k, vector_field=f, diffusion_flux=flux, nu_dt_by_dx2=mu)
        for i in range(3):
            region(K, f"field_comp{i}_", K.value(f, (i,) + c), c, shape, 1,
                   K.old(f, (i,) + c) + mu * lap(reader(K, f, (i,)), c, 3), K.old(f, (i,) + c))
        region(K, "scratch_", K.value(flux, c), c, shape, 1, mu * lap(reader(K, f, (2,)), c, 3), 0)


@unit("vorticity_stretching_timestep_euler_forward_3d", props=("C13", "C20"))
def vorticity_stretching_timestep_euler_forward_3d(K):
    shape = gshape(K, 3)
    k = K.gen("gen_vorticity_stretching_timestep_euler_forward_pyst_kernel_3d")
    w, u, flux = (K.field(n, (3,) + shape) for n in
                  ("vorticity_field", "velocity_field", "vorticity_stretching_flux_field"))
    p = K.real("dt_by_2_dx")
    K.run(k, vorticity_field=w, velocity_field=u, vorticity_stretching_flux_field=flux, dt_by_2_dx=p)
    c = K.cell(shape)
    for i in range(3):
        fl = p * stretching(_omega(K, w), reader(K, u, (i,)), c)
        region(K, f"field_comp{i}_", K.value(w, (i,) + c), c, shape, 1, K.old(w, (i,) + c) + fl, K.old(w, (i,) + c))
        region(K, f"scratch_comp{i}_", K.value(flux, (i,) + c), c, shape, 1, fl, 0)
    K.unchanged("frame_velocity", u)


# ----------------------------------------------------------------------------------------------
# A.4 Brinkmann penalisation and characteristic function (formula / region; C19 clauses are in
# c_stabilising.py)
# ----------------------------------------------------------------------------------------------
@unit("brinkmann_penalise", props=("C13", "C19"), configs=DT)
def brinkmann_penalise(K, dim, field_type):
    shape = gshape(K, dim)
    k = K.gen(f"gen_brinkmann_penalise_pyst_kernel_{dim}d", field_type=field_type)
    lam = K.real("penalty_factor", nonneg=True)
    chi = K.field("char_field", shape)
    c = K.cell(shape)
    K.requires(K.old(chi, c) >= 0)  # property range: indicator >= 0, penalty >= 0
    vs = (dim,) + shape if field_type == "vector" else shape
    out, f, tgt = K.field("penalised_field", vs), K.field("field", vs), K.field("penalty_field", vs)
    if field_type == "scalar":
        K.run(k, penalised_field=out, field=f, char_field=chi, penalty_field=tgt, penalty_factor=lam)
        comps = [()]
    else:
        K.run(k, penalised_vector_field=out, penalty_factor=lam, char_field=chi, penalty_vector_field=tgt, vector_field=f)
        comps = [(i,) for i in range(dim)]
    x = K.old(chi, c)
    for pre in comps:
        tag = f"comp{pre[0]}_" if pre else ""
        u, ub, o = K.old(f, pre + c), K.old(tgt, pre + c), K.value(out, pre + c)
        K.ensures_eq(tag + "formula", o, (u + lam * x * ub) / (1 + lam * x), props=("C13",))
        # C19: convex combination  out = theta*u + (1-theta)*ub with theta = 1/(1+lam*chi) in (0, 1]
        theta = 1 / (1 + lam * x)
        K.ensures(tag + "theta_in_(0,1]", and_(theta > 0, theta <= 1), props=("C19",))
        K.ensures_eq(tag + "convex_combination", o, theta * u + (1 - theta) * ub, props=("C19",))
        K.ensures_eq(tag + "identity_where_indicator_zero", o, u, when=(x == 0), props=("C19",))
        K.ensures_eq(tag + "distance_to_target_contracts", (o - ub) * (1 + lam * x), u - ub, props=("C19",))
    K.unchanged("frame_field", f)
    K.unchanged("frame_char", chi)
    K.unchanged("frame_target", tgt)


@unit("brinkmann_penalise_vs_fixed_val_2d", props=("C13", "C19"), configs=[dict(field_type="scalar"), dict(field_type="vector")])
def brinkmann_penalise_vs_fixed_val_2d(K, field_type):
    shape = gshape(K, 2)
    k = K.gen("gen_brinkmann_penalise_vs_fixed_val_pyst_kernel_2d", field_type=field_type)
    lam = K.real("penalty_factor", nonneg=True)
    chi = K.field("char_field", shape)
    c = K.cell(shape)
    K.requires(K.old(chi, c) >= 0)
    x = K.old(chi, c)
    if field_type == "scalar":
        out, f, ub = K.field("penalised_field", shape), K.field("field", shape), K.real("penalty_val")
        K.run(k, penalised_field=out, field=f, char_field=chi, penalty_val=ub, penalty_factor=lam)
        items = [((), ub)]
    else:
        out, f = K.field("penalised_vector_field", (2,) + shape), K.field("vector_field", (2,) + shape)
        ubs = [K.real("penalty_val_0"), K.real("penalty_val_1")]
        K.run(k, penalised_vector_field=out, penalty_factor=lam, char_field=chi, penalty_val=ubs, vector_field=f)
        items = [((0,), ubs[0]), ((1,), ubs[1])]
    for pre, ub in items:
        tag = f"comp{pre[0]}_" if pre else ""
        u, o = K.old(f, pre + c), K.value(out, pre + c)
        K.ensures_eq(tag + "formula", o, (u + lam * x * ub) / (1 + lam * x), props=("C13",))
        theta = 1 / (1 + lam * x)
        K.ensures_eq(tag + "convex_combination", o, theta * u + (1 - theta) * ub, props=("C19",))
        K.ensures_eq(tag + "identity_where_indicator_zero", o, u, when=(x == 0), props=("C19",))
    K.unchanged("frame_field", f)
    K.unchanged("frame_char", chi)


# ----------------------------------------------------------------------------------------------
# characteristic function from level set (C13 formula + C19 shape properties)
# ----------------------------------------------------------------------------------------------
def heaviside_spec(phi, w):
    from svx.contract import fabs_, sin_
    from svx.sym import Sym
    pi = Sym.pi() if isinstance(phi, Sym) or isinstance(w, Sym) else __import__("math").pi
    blend = Fr(1, 2) * (1 + phi / w + sin_(pi * phi / w) / pi) if isinstance(pi, Sym) else 0.5 * (1 + phi / w + sin_(pi * phi / w) / pi)
    return ite_(phi > w, 1, 0) + ite_(fabs_(phi) > w, 0, blend)


@unit("char_func_from_level_set", props=("C13", "C19"), configs=[dict(dim=2), dict(dim=3)])
def char_func_from_level_set(K, dim):
    shape = gshape(K, dim)
    w = K.real("blend_width", pos=True)
    k = K.gen(f"gen_char_func_from_level_set_via_sine_heaviside_pyst_kernel_{dim}d", blend_width=w)
    chi, phi = K.field("char_func_field", shape), K.field("level_set_field", shape)
    K.run(k, char_func_field=chi, level_set_field=phi)
    c = K.cell(shape)
    p, h = K.old(phi, c), K.value(chi, c)
    K.ensures_eq("formula", h, heaviside_spec(p, w), props=("C13",))
    K.unchanged("frame_level_set", phi, props=("C13",))
    # C19
    K.ensures("range_[0,1]", and_(h >= 0, h <= 1), props=("C19",))
    K.ensures_eq("one_beyond_blend_width", h, 1, when=(p >= w), props=("C19",))
    K.ensures_eq("zero_beyond_blend_width", h, 0, when=(p <= -w), props=("C19",))
    if K.mode == "sym":
        # two-point clauses: a second cell d of the same call
        d = K.cell(shape, name="d")
        q, g = K.old(phi, d), K.value(chi, d)
        K.ensures("non_decreasing", g >= h, when=(q >= p), props=("C19",))
        K.ensures_eq("H(phi)+H(-phi)=1", g + h, 1, when=(q == -p), props=("C19",))


