"""C08 (action = reaction) and C09 (marker kinematics) for the real forcing-grid classes.

The methods under contract run unmodified (PyElastica's helpers included, njit neutralised) on
objects whose body state is SYMBOLIC: positions, velocities, angular velocities, masses, radii are
fresh reals; director frames are generic rotations Q = R(q)/|q|^2 (quaternion parametrisation, lemma
M5), so no frame-alignment coincidence can hide a transposition.  Constructors are bypassed: the
layout-dependent cached attributes (index windows, local surface points, radius ratios) are set to a
representative layout with symbolic entries (bounded layouts, all real values).
"""
import contextlib
import sys
from fractions import Fraction as Fr

import numpy as np

from svx.contract import and_, unit

from .c_coupling import _NATIVE, S_, fresh, object_array_modules


def const_arr(K, shape, c):
    if K.mode == "sym":
        from svx import objnp
        return objnp.const(shape, c)
    return np.full(shape, float(c))


def empty_arr(K, shape):
    return np.empty(shape, dtype=object) if K.mode == "sym" else np.zeros(shape)


def num(K, c):
    if K.mode == "sym":
        from svx.sym import Sym
        return Sym.const(c)
    return float(c)

RB_MOD = "sopht.simulator.immersed_body.rigid_body.rigid_body_forcing_grids"
CR_MOD = "sopht.simulator.immersed_body.cosserat_rod.cosserat_rod_forcing_grids"
EL_MODS = ("elastica._linalg", "elastica.interaction", "elastica.contact_utils", "elastica._calculus")


# ---- small exact vector algebra on Sym ---------------------------------------------------------------
def cross(a, b):
    return [a[1] * b[2] - a[2] * b[1], a[2] * b[0] - a[0] * b[2], a[0] * b[1] - a[1] * b[0]]


def dot(a, b):
    return sum(x * y for x, y in zip(a, b))


def matvec(M, v):
    return [sum(M[i][j] * v[j] for j in range(3)) for i in range(3)]


def transpose(M):
    return [[M[j][i] for j in range(3)] for i in range(3)]


def vadd(a, b):
    return [x + y for x, y in zip(a, b)]


def vsub(a, b):
    return [x - y for x, y in zip(a, b)]


def vscale(s, a):
    return [s * x for x in a]


class Rot:
    """generic rotation: Q = R(q) / n with n standing for |q|^2 (substituted when orthogonality is needed)"""

    def __init__(self, K, name, planar=False):
        from svx.sym import Sym
        self.q = [K.real(f"{name}_q{i}") for i in range(4)]
        if planar:  # rotation about z only (2-D bodies move in the XY plane)
            self.q[1] = self.q[2] = num(K, 0)
        a, b, c, d = self.q
        self.native = K.mode != "sym"
        self.norm2 = a * a + b * b + c * c + d * d
        # replay on the compiled code: n IS |q|^2 (a numeric rotation matrix), `reduce` has nothing to substitute
        self.n = K.real(f"{name}_qnorm2", pos=True) if not self.native else self.norm2
        R = [[a * a + b * b - c * c - d * d, 2 * (b * c - a * d), 2 * (b * d + a * c)],
             [2 * (b * c + a * d), a * a - b * b + c * c - d * d, 2 * (c * d - a * b)],
             [2 * (b * d - a * c), 2 * (c * d + a * b), a * a - b * b - c * c + d * d]]
        self.Q = [[R[i][j] / self.n for j in range(3)] for i in range(3)]

    def reduce(self, expr):
        """expr modulo n = |q|^2 (clears the negative powers of n, then substitutes)"""
        if self.native:
            return expr
        from svx.sym import Sym
        e = S_(expr)
        (m, _), = self.n.p.items()
        nid = m[0][0]
        low = 0
        for mono in e.p:
            for a, ex in mono:
                if a == nid:
                    low = min(low, ex)
        e = e * self.n ** (-low)
        return e.subst({nid: self.norm2})


def sym_array(K, name, shape):
    return K.array(name, shape)


class Body:
    pass


def bypass_init(cls, **attrs):
    obj = cls.__new__(cls)
    for k, v in attrs.items():
        setattr(obj, k, v)
    return obj


# =============================================================================================
# rigid bodies
# =============================================================================================
def _real_rigid_grid(clsname, dim):
    """real constructor of a derived rigid-body grid class on a concrete small body in its reference pose"""
    import importlib
    m = importlib.import_module(RB_MOD)
    saved = m.np
    m.np = np
    try:
        body = Body()
        body.position_collection = np.zeros((3, 1))
        body.velocity_collection = np.zeros((3, 1))
        body.omega_collection = np.zeros((3, 1))
        body.director_collection = np.eye(3).reshape(3, 3, 1).copy()
        body.radius, body.length, body.breadth = 0.75, 1.5, 1.0
        cls = getattr(m, clsname)
        if clsname == "CircularCylinderForcingGrid":
            return cls(grid_dim=2, rigid_body=body, num_forcing_points=5)
        if clsname == "OpenEndCircularCylinderForcingGrid":
            body.radius = 0.3  # 3 markers around the circumference for 2 along the length
            return cls(grid_dim=3, rigid_body=body, num_forcing_points_along_length=2)
        if clsname == "RectangularPlaneForcingGrid":
            return cls(grid_dim=3, rigid_body=body, num_forcing_points_along_length=3)
        return cls(grid_dim=3, rigid_body=body, num_forcing_points_along_equator=6)
    finally:
        m.np = saved


@unit("rigid_body_forcing_grids", props=("C08", "C09"), kernels=False,
      configs=[dict(kind=k) for k in ("cylinder_2d", "rigid_3d", "sphere")]
      + [dict(kind="cylinder_2d", ctor="CircularCylinderForcingGrid"), dict(kind="rigid_3d", ctor="OpenEndCircularCylinderForcingGrid"),
         dict(kind="rigid_3d", ctor="RectangularPlaneForcingGrid"), dict(kind="sphere", ctor="SphereForcingGrid")],
      assumes=("M5: every rotation matrix is R(q)/|q|^2 for a quaternion q", "layouts bounded: 3 markers with symbolic body-frame offsets; with `ctor`: the marker layout the REAL constructor of the "
               "derived class produces for one concrete small body (5-9 markers), pose and velocities symbolic",
               "PyElastica pose advance Q(delta) = (I - delta [Omega]_x) Q + O(delta^2), X(delta) = X + delta V (assumed)"))
def rigid_body_forcing_grids(K, kind, ctor=None):
    _NATIVE[0] = K.mode != "sym"
    N = 3
    dim = 2 if kind == "cylinder_2d" else 3
    rot = Rot(K, "body", planar=(dim == 2))
    body = Body()
    body.director_collection = empty_arr(K, (3, 3, 1))
    for i in range(3):
        for j in range(3):
            body.director_collection[i, j, 0] = rot.Q[i][j]
    body.position_collection = sym_array(K, "X", (3, 1))
    body.velocity_collection = sym_array(K, "V", (3, 1))
    body.omega_collection = sym_array(K, "Omega", (3, 1))
    X = [S_(body.position_collection[i, 0]) for i in range(3)]
    V = [S_(body.velocity_collection[i, 0]) for i in range(3)]
    Om = [S_(body.omega_collection[i, 0]) for i in range(3)]
    if dim == 2:  # planar motion: spin about z only
        body.omega_collection[0, 0] = body.omega_collection[1, 0] = Om[0] * 0
        Om = [Om[0] * 0, Om[0] * 0, Om[2]]
    clsname = ctor or {"cylinder_2d": "TwoDimensionalCylinderForcingGrid", "rigid_3d": "ThreeDimensionalRigidBodyForcingGrid",
                       "sphere": "SphereForcingGrid"}[kind]

    def as_values(a):
        """the constructor's concrete layout as exact values of the current mode"""
        out = empty_arr(K, a.shape)
        for idx in np.ndindex(*a.shape):
            out[idx] = num(K, float(a[idx]))
        return out

    with object_array_modules(RB_MOD, *EL_MODS):
        cls = K.repo(f"{RB_MOD}:{clsname}")
        if ctor:
            # the REAL constructor lays the markers out; then the body it was built on is replaced by one in an
            # arbitrary pose with arbitrary velocities, and everything the constructor cached becomes stale
            g = _real_rigid_grid(ctor, dim)
            N = g.num_lag_nodes
            K.ensures("real_constructor_yields_a_small_layout", 3 <= N <= 12, props=("C08", "C09"))
            attrs = dict(position_field=fresh(K, "stale_pos", (dim, N)), velocity_field=fresh(K, "stale_vel", (dim, N)),
                         local_frame_relative_position_field=as_values(g.local_frame_relative_position_field),
                         global_frame_relative_position_field=(as_values(g.global_frame_relative_position_field) if kind == "sphere"
                                                               else fresh(K, "stale_rel", (dim, N))))
            attrs["cylinder" if dim == 2 else "rigid_body"] = body
            for k_, v_ in attrs.items():
                setattr(g, k_, v_)
        else:
            attrs = dict(grid_dim=dim, num_lag_nodes=N, position_field=fresh(K, "stale_pos", (dim, N)),
                         velocity_field=fresh(K, "stale_vel", (dim, N)),
                         local_frame_relative_position_field=sym_array(K, "r_local", (dim, N)),
                         global_frame_relative_position_field=(sym_array(K, "r_global", (dim, N)) if kind == "sphere"
                                                               else fresh(K, "stale_rel", (dim, N))))
            attrs["cylinder" if dim == 2 else "rigid_body"] = body
            g = bypass_init(cls, **attrs)
        r_local = g.local_frame_relative_position_field.copy()
        g.compute_lag_grid_position_field()
        g.compute_lag_grid_velocity_field()
        F = sym_array(K, "lag_grid_forcing_field", (dim, N))
        forces, torques = fresh(K, "stale_body_forces", (3, 1)), fresh(K, "stale_body_torques", (3, 1))
        g.transfer_forcing_from_grid_to_body(forces, torques, F)
    QT = transpose(rot.Q)
    w_lab = matvec(QT, Om)
    pad = lambda v: list(v) + [S_(0)] * (3 - len(v))
    Fsum = [sum(S_(F[a, k]) for k in range(N)) for a in range(dim)]
    net_moment = [S_(0)] * 3
    power = S_(0)
    P = [K.real(f"P{i}") for i in range(3)]  # an arbitrary point
    for k in range(N):
        x = pad([S_(g.position_field[a, k]) for a in range(dim)])
        v = pad([S_(g.velocity_field[a, k]) for a in range(dim)])
        if dim == 2:
            x[2] = X[2]
        rel = vsub(x, X)
        # ---- C09: marker position / velocity -----------------------------------------------------------
        if kind == "sphere":
            for a in range(3):
                K.ensures_eq(f"sphere_markers_translate_with_the_centre[{a},{k}]", x[a], X[a] + S_(g.global_frame_relative_position_field[a, k]), props=("C09",))
        else:
            rl = pad([S_(r_local[a, k]) for a in range(dim)])
            expect = vadd(X, matvec(QT, rl))
            for a in range(dim):
                K.ensures_eq(f"marker_is_centre_plus_QT_times_body_frame_offset[{a},{k}]", x[a], expect[a], props=("C09",))
        vexp = vadd(V, cross(w_lab, rel))
        for a in range(dim):
            K.ensures_eq(f"marker_velocity_is_V_plus_lab_omega_cross_offset[{a},{k}]", v[a], vexp[a], props=("C09",))
        if kind != "sphere":
            # pose-advance consistency: d/d(delta) [X + delta V + Q(delta)^T r] at 0 equals the marker velocity
            rl = pad([S_(r_local[a, k]) for a in range(dim)])
            dxd = vadd(V, matvec(QT, cross(Om, rl)))
            for a in range(dim):
                K.ensures_eq(f"advancing_the_pose_moves_the_marker_with_its_velocity[{a},{k}]", rot.reduce(dxd[a] - v[a]), 0, props=("C09",))
        Fk = pad([S_(F[a, k]) for a in range(dim)])
        net_moment = vadd(net_moment, cross(vsub(x, P), Fk))
        power = power + dot(Fk, v)
    # ---- C08 -------------------------------------------------------------------------------------------------
    bf = [S_(forces[i, 0]) for i in range(3)]
    bt = [S_(torques[i, 0]) for i in range(3)]
    for a in range(dim):
        K.ensures_eq(f"net_body_force_is_minus_total_marker_force[{a}]", bf[a], -Fsum[a], props=("C08",))
    if dim == 2:
        bf = [bf[0], bf[1], S_(0)]
        bt = [S_(0), S_(0), bt[2]]
    lab_couple = matvec(QT, bt)
    body_moment = vadd(cross(vsub(X, P), bf), lab_couple)
    comps = (2,) if dim == 2 else (0, 1, 2)
    for a in comps:
        K.ensures_eq(f"moment_about_any_point_of_body_wrench_is_minus_moment_of_marker_forces[{a}]",
                     rot.reduce(body_moment[a] + net_moment[a]), 0, props=("C08",))
    K.ensures_eq("power_of_transferred_wrench_is_minus_power_of_marker_forces",
                 rot.reduce(dot(bf, V) + dot(bt, Om) + power), 0, props=("C08",))


# =============================================================================================
# Cosserat rods
# =============================================================================================
def rod_stub(K, E, planar):
    """symbolic rod state: E elements, generic director frames"""
    rod = Body()
    rod.n_elems = E
    rod.position_collection = sym_array(K, "x_node", (3, E + 1))
    rod.velocity_collection = sym_array(K, "v_node", (3, E + 1))
    rod.omega_collection = sym_array(K, "omega_elem", (3, E))
    rod.mass = sym_array(K, "mass", (E + 1,))
    rod.radius = sym_array(K, "radius", (E,))
    rod.lengths = sym_array(K, "lengths", (E,))
    rod.tangents = sym_array(K, "tangent", (3, E))
    if K.mode != "sym":  # random replays: draw the positive quantities positive (a counterexample's values already are)
        rod.mass[...] = np.abs(rod.mass) + 0.1 * (rod.mass <= 0)
        rod.radius[...] = np.abs(rod.radius) + 0.1 * (rod.radius <= 0)
    for j in range(E + 1):
        K.requires(S_(rod.mass[j]) > 0)
    for e in range(E):
        K.requires(S_(rod.radius[e]) > 0)
    rots = [Rot(K, f"elem{e}", planar=planar) for e in range(E)]
    rod.director_collection = empty_arr(K, (3, 3, E))
    for e in range(E):
        for i in range(3):
            for j in range(3):
                rod.director_collection[i, j, e] = rots[e].Q[i][j]
    if planar:
        for j in range(E + 1):
            rod.position_collection[2, j] = num(K, 0)
            rod.velocity_collection[2, j] = num(K, 0)
        for e in range(E):
            rod.omega_collection[0, e] = rod.omega_collection[1, e] = num(K, 0)
            rod.tangents[2, e] = num(K, 0)
    return rod, rots


def _real_rod_grid(cls, E, dim):
    """real __init__ of the nodal / element-centric / edge grid on a concrete straight rod (real numpy in its module)"""
    import importlib
    m = importlib.import_module(CR_MOD)
    el = [importlib.import_module(x) for x in EL_MODS]
    saved = [(mod, mod.np) for mod in [m] + el]
    try:
        for mod, _ in saved:
            mod.np = np
        rod = Body()
        rod.n_elems = E
        rod.position_collection = np.zeros((3, E + 1))
        rod.position_collection[0] = np.arange(E + 1.0)  # along x: in the XY plane, as the 2-D grids require
        rod.velocity_collection = np.zeros((3, E + 1))
        rod.omega_collection = np.zeros((3, E))
        rod.director_collection = np.repeat(np.array([[0.0, 1, 0], [0, 0, 1], [1, 0, 0]]).reshape(3, 3, 1), E, axis=2)
        rod.mass = np.ones(E + 1)
        rod.radius = 0.2 + 0.1 * np.arange(E)
        rod.lengths = np.ones(E)
        rod.tangents = np.repeat(np.array([[1.0], [0.0], [0.0]]), E, axis=1)
        return cls(grid_dim=dim, cosserat_rod=rod)
    finally:
        for mod, v in saved:
            mod.np = v


def _real_surface_grid(cls, E):
    """real CosseratRodSurfaceForcingGrid.__init__ on a concrete rod (real numpy in its module)"""
    import importlib
    m = importlib.import_module(CR_MOD)
    el = [importlib.import_module(x) for x in EL_MODS]
    saved = [(mod, mod.np) for mod in [m] + el]
    try:
        for mod, _ in saved:
            mod.np = np
        rod = Body()
        rod.n_elems = E
        rod.position_collection = np.array([[0.0, 0.0, 0.0], [0.0, 0.0, 0.0], [0.0, 1.0, 2.0]])
        rod.velocity_collection = np.zeros((3, E + 1))
        rod.omega_collection = np.zeros((3, E))
        rod.director_collection = np.repeat(np.eye(3).reshape(3, 3, 1), E, axis=2)
        rod.mass = np.ones(E + 1)
        rod.radius = np.array([1.0, 0.3])
        rod.lengths = np.ones(E)
        rod.tangents = np.repeat(np.array([[0.0], [0.0], [1.0]]), E, axis=1)
        return cls(grid_dim=3, cosserat_rod=rod, surface_grid_density_for_largest_element=3, with_cap=False)
    finally:
        for mod, v in saved:
            mod.np = v


def reduce_all(rots, expr):
    e = S_(expr)
    for r in rots:
        e = r.reduce(e)
    return e


@unit("cosserat_rod_forcing_grids", props=("C08", "C09"), kernels=False,
      configs=[dict(kind="nodal", dim=d) for d in (2, 3)] + [dict(kind="element_centric", dim=d) for d in (2, 3)]
      + [dict(kind="edge", dim=2), dict(kind="surface", dim=3)]
      + [dict(kind=k, dim=d, E=E, _tier="thorough") for k, d in (("nodal", 3), ("element_centric", 3), ("edge", 2), ("nodal", 2))
         for E in (1, 3, 4)]
      + [dict(kind=k, dim=d, real_ctor=True) for k, d in (("nodal", 3), ("element_centric", 2), ("element_centric", 3), ("edge", 2))],
      assumes=("M5 quaternion parametrisation of director frames",
               "layouts bounded: 2 elements (thorough tier: also 1, 3 and 4 elements for the nodal, element-centric and edge grids); surface grid: one element with 3 surface markers (symbolic unit directions, "
               "symbolic cap ratios), one element with a single centre marker",
               "edge grid: rod in the XY plane (the class' own documented assumption)"))
def cosserat_rod_forcing_grids(K, kind, dim, E=2, real_ctor=False):
    _NATIVE[0] = K.mode != "sym"
    planar = dim == 2
    rod, rots = rod_stub(K, E, planar)
    clsname = {"nodal": "CosseratRodNodalForcingGrid", "element_centric": "CosseratRodElementCentricForcingGrid",
               "edge": "CosseratRodEdgeForcingGrid", "surface": "CosseratRodSurfaceForcingGrid"}[kind]
    x = [[S_(rod.position_collection[a, j]) for a in range(3)] for j in range(E + 1)]
    v = [[S_(rod.velocity_collection[a, j]) for a in range(3)] for j in range(E + 1)]
    xc = [vscale(Fr(1, 2), vadd(x[e], x[e + 1])) for e in range(E)]
    mass = [S_(rod.mass[j]) for j in range(E + 1)]
    vc = [[(mass[e] * v[e][a] + mass[e + 1] * v[e + 1][a]) / (mass[e] + mass[e + 1]) for a in range(3)] for e in range(E)]
    w_lab = [matvec(transpose(rots[e].Q), [S_(rod.omega_collection[a, e]) for a in range(3)]) for e in range(E)]
    with object_array_modules(CR_MOD, *EL_MODS):
        cls = K.repo(f"{CR_MOD}:{clsname}")
        attrs = dict(grid_dim=dim, cosserat_rod=rod)
        if kind == "nodal":
            N = E + 1
            attrs["moment_arm"] = fresh(K, "stale_arm", (3, E))
            owner = None
        elif kind == "element_centric":
            N = E
            owner = list(range(E))
        elif kind == "edge":
            N = 3 * E
            zv = empty_arr(K, (3, E))
            for e in range(E):
                zv[0, e], zv[1, e], zv[2, e] = num(K, 0), num(K, 0), num(K, 1)
            attrs.update(z_vector=zv, moment_arm=fresh(K, "stale_arm", (3, E)), start_idx_elems=0, end_idx_elems=E,
                         start_idx_left_edge_nodes=E, end_idx_left_edge_nodes=2 * E, start_idx_right_edge_nodes=2 * E,
                         end_idx_right_edge_nodes=3 * E, element_forces_left_edge_nodes=const_arr(K, (3, E), 0),
                         element_forces_right_edge_nodes=const_arr(K, (3, E), 0))
            owner = list(range(E)) * 3
        else:
            N = 4  # element 0: three surface markers, element 1: one centre marker
            owner = [0, 0, 0, 1]
            lsp = empty_arr(K, (3, N))
            for k in range(3):
                ck, sk = K.real(f"cosang{k}"), K.real(f"sinang{k}")
                if _NATIVE[0]:  # the unit direction of the counterexample (or a random one), renormalised in floating point
                    h = (ck * ck + sk * sk) ** 0.5
                    ck, sk = (ck / h, sk / h) if h > 0 else (1.0, 0.0)
                lsp[0, k], lsp[1, k], lsp[2, k] = ck, sk, num(K, 0)
                if not _NATIVE[0]:
                    K.requires(S_(lsp[0, k]) ** 2 + S_(lsp[1, k]) ** 2 == 1)
            lsp[0, 3] = lsp[1, 3] = lsp[2, 3] = num(K, 0)
            ratio = empty_arr(K, (N,))
            for k in range(N):
                ratio[k] = K.real(f"cap_ratio{k}", nonneg=True)
                if _NATIVE[0]:
                    ratio[k] = min(ratio[k], 1.0)
                K.requires(S_(ratio[k]) <= 1)
            attrs.update(n_elems=E, start_idx=np.array([0, 3]), end_idx=np.array([3, 4]), local_frame_surface_points=lsp,
                         grid_point_radius_ratio=ratio, moment_arm=fresh(K, "stale_arm", (3, N)),
                         rod_director_collection_transpose=fresh(K, "stale_dirT", (3, 3, E)),
                         rod_element_position=fresh(K, "stale_xc", (3, E)), rod_element_velocity=fresh(K, "stale_vc", (3, E)),
                         rod_element_global_frame_omega=fresh(K, "stale_w", (3, E)),
                         grid_point_director_transpose=fresh(K, "stale_gdT", (3, 3, N)),
                         grid_point_radius=fresh(K, "stale_gr", (N,)), grid_point_omega=fresh(K, "stale_gw", (3, N)),
                         lag_grid_torque_field=fresh(K, "stale_tq", (3, N)))
        attrs.update(num_lag_nodes=N, position_field=fresh(K, "stale_pos", (dim, N)), velocity_field=fresh(K, "stale_vel", (dim, N)))
        if kind == "surface":
            # the REAL constructor runs on a concrete tapered rod that produces this layout (3 + 1 markers); every
            # attribute it creates is kept, then the state it cached is replaced by symbols (DESIGN appendix B)
            g = _real_surface_grid(cls, E)
            ok_layout = (g.num_lag_nodes == N and list(g.start_idx) == [0, 3] and list(g.end_idx) == [3, 4])
            K.ensures("real_constructor_yields_the_representative_layout", ok_layout, props=("C08", "C09"))
            for k_, v_ in attrs.items():
                setattr(g, k_, v_)
        elif real_ctor:
            # the REAL constructor on a concrete rod decides the layout (marker count, index windows, constant tables);
            # then the rod is replaced by one in an arbitrary state and everything cached becomes stale
            g = _real_rod_grid(cls, E, dim)
            K.ensures("real_constructor_yields_the_documented_marker_count", g.num_lag_nodes == N, props=("C08", "C09"))
            layout = ("grid_dim", "start_idx_elems", "end_idx_elems", "start_idx_left_edge_nodes", "end_idx_left_edge_nodes",
                      "start_idx_right_edge_nodes", "end_idx_right_edge_nodes")
            for k_, v_ in attrs.items():
                if k_ in layout:
                    continue  # keep what the constructor computed
                if k_ == "z_vector":
                    v_ = empty_arr(K, g.z_vector.shape)
                    for idx in np.ndindex(*g.z_vector.shape):
                        v_[idx] = num(K, float(g.z_vector[idx]))
                setattr(g, k_, v_)
        else:
            g = bypass_init(cls, **attrs)
        g.compute_lag_grid_position_field()
        g.compute_lag_grid_velocity_field()
        F = sym_array(K, "lag_grid_forcing_field", (dim, N))
        forces = const_arr(K, (3, E + 1), 0) if kind == "element_centric" else fresh(K, "stale_body_forces", (3, E + 1))
        torques = const_arr(K, (3, E), 0) if kind == "element_centric" else fresh(K, "stale_body_torques", (3, E))
        g.transfer_forcing_from_grid_to_body(forces, torques, F)
    pad = lambda vec: list(vec) + [S_(0)] * (3 - len(vec))
    P = [K.real(f"P{i}") for i in range(3)]
    xm = [pad([S_(g.position_field[a, k]) for a in range(dim)]) for k in range(N)]
    vm = [pad([S_(g.velocity_field[a, k]) for a in range(dim)]) for k in range(N)]
    Fm = [pad([S_(F[a, k]) for a in range(dim)]) for k in range(N)]
    # ---- C09 ------------------------------------------------------------------------------------------------
    if kind == "nodal":
        for k in range(N):
            for a in range(dim):
                K.ensures_eq(f"nodal_markers_are_the_nodes[{a},{k}]", xm[k][a], x[k][a], props=("C09",))
                K.ensures_eq(f"nodal_marker_velocities_are_node_velocities[{a},{k}]", vm[k][a], v[k][a], props=("C09",))
    else:
        for k in range(N):
            e = owner[k]
            rel = vsub(xm[k], xc[e])
            vexp = vadd(vc[e], cross(w_lab[e], rel))
            for a in range(dim):
                K.ensures_eq(f"marker_moves_rigidly_with_its_element_cross_section[{a},{k}]",
                             reduce_all(rots, vm[k][a] - vexp[a]), 0, props=("C09",))
            if kind == "element_centric" or (kind == "edge" and k < E) or (kind == "surface" and k == 3):
                for a in range(dim):
                    K.ensures_eq(f"centre_marker_sits_on_the_element_centre[{a},{k}]", xm[k][a], xc[e][a], props=("C09",))
            elif kind == "surface":
                rr = S_(rod.radius[e]) * S_(g.grid_point_radius_ratio[k])
                K.ensures_eq(f"surface_marker_distance_is_radius_times_cap_ratio[{k}]",
                             reduce_all(rots, dot(rel, rel) - rr * rr), 0, props=("C09",))
    if kind == "edge":
        for k in range(E, 3 * E):
            e = owner[k]
            rel = vsub(xm[k], xc[e])
            t = [S_(rod.tangents[a, e]) for a in range(3)]
            K.ensures_eq(f"edge_marker_distance_is_radius_for_unit_tangent[{k}]", dot(rel, rel),
                         S_(rod.radius[e]) ** 2 * (t[0] ** 2 + t[1] ** 2), props=("C09",))
            K.ensures_eq(f"edge_marker_offset_is_normal_to_the_tangent[{k}]", dot(rel, t), 0, props=("C09",))
    # ---- C08 ----------------------------------------------------------------------------------------------------
    bf = [[S_(forces[a, j]) for a in range(3)] for j in range(E + 1)]
    bt = [[S_(torques[a, e]) for a in range(3)] for e in range(E)]
    if planar:
        bf = [[f_[0], f_[1], S_(0)] if kind != "element_centric" else f_ for f_ in bf]
    for a in range(dim):
        K.ensures_eq(f"net_body_force_is_minus_total_marker_force[{a}]",
                     sum(bf[j][a] for j in range(E + 1)), -sum(Fm[k][a] for k in range(N)), props=("C08",))
    if kind in ("nodal",):
        for k in range(N):
            for a in range(dim):
                K.ensures_eq(f"nodal_force_is_minus_marker_force[{a},{k}]", bf[k][a], -Fm[k][a], props=("C08",))
    if kind in ("element_centric", "edge", "surface"):
        # moment about an arbitrary point: nodal forces + lab-frame element couples = - moment of marker forces
        body_m = [S_(0)] * 3
        for j in range(E + 1):
            body_m = vadd(body_m, cross(vsub(x[j], P), bf[j]))
        for e in range(E):
            body_m = vadd(body_m, matvec(transpose(rots[e].Q), bt[e]))
        mark_m = [S_(0)] * 3
        for k in range(N):
            mark_m = vadd(mark_m, cross(vsub(xm[k], P), Fm[k]))
        for a in ((2,) if planar else (0, 1, 2)):
            K.ensures_eq(f"net_moment_of_nodal_forces_and_lab_couples_is_minus_moment_of_marker_forces[{a}]",
                         reduce_all(rots, body_m[a] + mark_m[a]), 0, props=("C08",))


# =============================================================================================
# surface grid: what the constructor lays out (cap rings), on concrete tapered rods
# =============================================================================================
def _concrete_rod(radii):
    E = len(radii)
    rod = Body()
    rod.n_elems = E
    rod.position_collection = np.zeros((3, E + 1))
    rod.position_collection[2] = np.arange(E + 1.0)
    rod.velocity_collection = np.zeros((3, E + 1))
    rod.omega_collection = np.zeros((3, E))
    rod.director_collection = np.repeat(np.eye(3).reshape(3, 3, 1), E, axis=2)
    rod.mass = np.ones(E + 1)
    rod.radius = np.array(radii, dtype=float)
    rod.lengths = np.ones(E)
    rod.tangents = np.repeat(np.array([[0.0], [0.0], [1.0]]), E, axis=1)
    return rod


@unit("surface_grid_constructor_layout", props=("C09",), kernels=False,
      configs=[dict(radii=r, density=d, with_cap=c) for r, d, c in (
          ((1.0, 0.3), 3, False), ((1.0, 1.0), 14, True), ((1.0, 0.5), 26, True), ((0.5, 1.0), 26, True),
          ((0.4, 0.7, 1.0), 20, True), ((1.0, 0.6, 0.2), 13, True), ((0.05, 0.1), 40, True))],
      assumes=("layouts bounded: the listed tapered rods / densities / cap options; concrete execution of the real constructor",
               "cap rings as documented in the constructor: an end with P > 1 surface points gets n = max(floor(P / 2 pi), 1) "
               "concentric rings at the fractions j / n (j = 0..n-1) of THAT end's radius, plus the surface ring at ratio 1"))
def surface_grid_constructor_layout(K, radii, density, with_cap):
    """real CosseratRodSurfaceForcingGrid.__init__ (and the positions it computes for the rod it was given): every marker sits
    at its element's radius times its cap ratio from the element centre, where the expected ratio of every marker is derived
    here independently of the table the constructor stores."""
    import importlib
    import math
    radii = tuple(radii)
    E = len(radii)
    m = importlib.import_module(CR_MOD)
    el = [importlib.import_module(x) for x in EL_MODS]
    saved = [(mod, mod.np) for mod in [m] + el]
    cls = K.repo(f"{CR_MOD}:CosseratRodSurfaceForcingGrid")
    try:
        for mod, _ in saved:
            mod.np = np
        rod = _concrete_rod(radii)
        g = cls(grid_dim=3, cosserat_rod=rod, surface_grid_density_for_largest_element=density, with_cap=with_cap)
    finally:
        for mod, v in saved:
            mod.np = v
    P = [int(round(r / max(radii) * density)) for r in radii]
    P = [p if p >= 3 else 1 for p in P]
    rings = {}
    for end in ((0, E - 1) if with_cap else ()):
        rings[end] = max(int(P[end] / (2 * math.pi)), 1) if P[end] > 1 else 0
    K.ensures("index_windows_cover_all_markers_in_element_order",
              int(g.start_idx[0]) == 0 and int(g.end_idx[-1]) == g.num_lag_nodes == len(g.grid_point_radius_ratio)
              and all(int(g.end_idx[e]) == int(g.start_idx[e + 1]) for e in range(E - 1)))
    xc = 0.5 * (rod.position_collection[:, 1:] + rod.position_collection[:, :-1])
    for e in range(E):
        lo, hi = int(g.start_idx[e]), int(g.end_idx[e])
        ratios = np.asarray(g.grid_point_radius_ratio[lo:hi], dtype=float)
        n = rings.get(e, 0)
        expected = sorted({j / n for j in range(n)} | ({1.0} if P[e] > 1 else {0.0 if n else 1.0}))
        got = sorted(set(np.round(ratios, 12)))
        if P[e] == 1 and not n:
            # a single marker on the element centre (its stored ratio is irrelevant: the local offset is zero)
            K.ensures(f"single_centre_marker[{e}]", hi - lo == 1)
        else:
            K.ensures(f"ring_ratios_are_j_over_n_of_this_elements_radius_plus_the_surface_ring[{e}]",
                      len(got) == len(expected) and all(abs(a - b) < 1e-12 for a, b in zip(got, expected)),
                      note=f"got {got}, expected {expected}")
            K.ensures(f"surface_ring_has_the_scaled_point_count[{e}]", int(np.sum(np.abs(ratios - 1.0) < 1e-12)) == P[e])
        # the property itself, on the rod the grid was constructed for: distance from the element centre
        dist = np.sqrt(((g.position_field[:, lo:hi] - xc[:, e:e + 1]) ** 2).sum(axis=0))
        centre_only = P[e] == 1
        for k in range(hi - lo):
            exp_ratio = 0.0 if centre_only else min(expected, key=lambda v: abs(v - float(ratios[k])))
            K.ensures_eq(f"marker_distance_is_radius_times_ring_fraction[{e},{k}]", float(dist[k]), radii[e] * exp_ratio)
