"""C05: every differential kernel reproduces its continuous operator exactly on polynomials of
degree <= 2 (symbolic coefficients) sampled at the simulator's own cell centres, with the documented
sign, axis orientation (x along the LAST array axis) and prefactor convention.  All obligations are
polynomial identities in (coefficients, dx, cell index): decided by the normaliser."""
import itertools
from fractions import Fraction as Fr

from svx.contract import and_, not_, unit

from .c_eulerian import gshape
from .spec import AXES, AX, COMP, sh

NAMES = ("x", "y", "z")


class Poly:
    """P(x,y,z) = sum a_ijk x^i y^j z^k, total degree <= deg, symbolic coefficients; exact derivatives."""

    def __init__(self, K, name, dim, deg=2, coeffs=None):
        self.dim = dim
        if coeffs is None:
            coeffs = {}
            for e in itertools.product(range(deg + 1), repeat=dim):
                if sum(e) <= deg:
                    coeffs[e] = K.real(f"{name}_" + "".join(map(str, e)))
        self.c = coeffs

    def __call__(self, pt):  # pt: coordinates (x, y[, z])
        tot = 0
        for e, a in self.c.items():
            t = a
            for d in range(self.dim):
                t = t * pt[d] ** e[d]
            tot = tot + t
        return tot

    def d(self, ax):
        j = NAMES.index(ax)
        out = {}
        for e, a in self.c.items():
            if e[j] > 0:
                ne = list(e)
                ne[j] -= 1
                out[tuple(ne)] = out.get(tuple(ne), 0) + a * e[j]
        return Poly(None, None, self.dim, coeffs=out)


def centre(c, dx, dim):
    """physical coordinates (x, y[, z]) of the cell with array index c = ([z,] y, x)"""
    return tuple((c[AX[NAMES[d]]] + Fr(1, 2)) * dx for d in range(dim))


def sampled(K, name, shape, dx, dim, P):
    return K.field(name, shape, init=lambda idx: P(centre(idx, dx, dim)))


def vec_sampled(K, name, shape, dx, dim, Ps):
    return K.field(name, (dim,) + shape, init=lambda idx: Ps[int(getattr(idx[0], "const_value", lambda: idx[0])())](centre(idx[1:], dx, dim)))


@unit("consistency_laplacian", props=("C05",), configs=[dict(dim=2), dict(dim=3)])
def consistency_laplacian(K, dim):
    shape, dx, p = gshape(K, dim), K.real("dx", pos=True), K.real("prefactor")
    P = Poly(K, "a", dim)
    f, flux = sampled(K, "field", shape, dx, dim, P), K.field("diffusion_flux", shape)
    K.run(K.gen(f"gen_diffusion_flux_pyst_kernel_{dim}d"), diffusion_flux=flux, field=f, prefactor=p)
    c = K.cell(shape, margin=1)
    lapP = sum(P.d(ax).d(ax)(centre(c, dx, dim)) for ax in AXES[dim])
    K.ensures_eq("flux_is_prefactor_dx2_laplacian", K.value(flux, c), p * dx**2 * lapP)


@unit("consistency_curls_2d", props=("C05",))
def consistency_curls_2d(K):
    shape, dx, p = gshape(K, 2), K.real("dx", pos=True), K.real("prefactor")
    c = K.cell(shape, margin=1)
    X = centre(c, dx, 2)
    # in-plane curl: (u_x, u_y) -> d u_y/dx - d u_x/dy
    U = [Poly(K, "ux", 2), Poly(K, "uy", 2)]
    u, w = vec_sampled(K, "field", shape, dx, 2, U), K.field("curl", shape)
    K.run(K.gen("gen_inplane_field_curl_pyst_kernel_2d"), curl=w, field=u, prefactor=p)
    K.ensures_eq("inplane_curl", K.value(w, c), p * 2 * dx * (U[1].d("x")(X) - U[0].d("y")(X)))
    # out-of-plane curl: psi -> (d psi/dy, -d psi/dx)
    Psi = Poly(K, "psi", 2)
    ps, v = sampled(K, "psi_field", shape, dx, 2, Psi), K.field("curl_vec", (2,) + shape)
    K.run(K.gen("gen_outplane_field_curl_pyst_kernel_2d"), curl=v, field=ps, prefactor=p)
    K.ensures_eq("outplane_curl_x", K.value(v, (0,) + c), p * 2 * dx * Psi.d("y")(X))
    K.ensures_eq("outplane_curl_y", K.value(v, (1,) + c), -p * 2 * dx * Psi.d("x")(X))
    # vorticity updates
    F = [Poly(K, "fx", 2), Poly(K, "fy", 2)]
    frc, om = vec_sampled(K, "forcing", shape, dx, 2, F), K.field("vorticity_field", shape)
    K.run(K.gen("gen_update_vorticity_from_velocity_forcing_pyst_kernel_2d"),
          vorticity_field=om, velocity_forcing_field=frc, prefactor=p)
    K.ensures_eq("forcing_update", K.value(om, c), K.old(om, c) + p * 2 * dx * (F[1].d("x")(X) - F[0].d("y")(X)))
    V = [Poly(K, "vx", 2), Poly(K, "vy", 2)]
    pen, vel = vec_sampled(K, "penalised", shape, dx, 2, F), vec_sampled(K, "velocity", shape, dx, 2, V)
    om2 = K.field("vorticity_field_2", shape)
    K.run(K.gen("gen_update_vorticity_from_penalised_velocity_pyst_kernel_2d"),
          vorticity_field=om2, penalised_velocity_field=pen, velocity_field=vel, prefactor=p)
    K.ensures_eq("penalised_update", K.value(om2, c), K.old(om2, c) + p * 2 * dx * (
        F[1].d("x")(X) - V[1].d("x")(X) - F[0].d("y")(X) + V[0].d("y")(X)))


def _curl3(Ps, X):
    return (Ps[2].d("y")(X) - Ps[1].d("z")(X), Ps[0].d("z")(X) - Ps[2].d("x")(X), Ps[1].d("x")(X) - Ps[0].d("y")(X))


@unit("consistency_operators_3d", props=("C05",))
def consistency_operators_3d(K):
    shape, dx, p = gshape(K, 3), K.real("dx", pos=True), K.real("prefactor")
    c = K.cell(shape, margin=1)
    X = centre(c, dx, 3)
    A = [Poly(K, n, 3) for n in ("ax", "ay", "az")]
    a = vec_sampled(K, "field", shape, dx, 3, A)
    cu = K.field("curl", (3,) + shape)
    K.run(K.gen("gen_curl_pyst_kernel_3d"), curl=cu, field=a, prefactor=p)
    for i, e in enumerate(_curl3(A, X)):
        K.ensures_eq(f"curl_comp{i}", K.value(cu, (i,) + c), p * 2 * dx * e)
    dv, inv_dx = K.field("divergence", shape), K.real("inv_dx")
    K.run(K.gen("gen_divergence_pyst_kernel_3d"), divergence=dv, field=a, inv_dx=inv_dx)
    K.ensures_eq("divergence", K.value(dv, c), inv_dx * dx * sum(A[i].d(NAMES[i])(X) for i in range(3)))
    om = K.field("vorticity_field", (3,) + shape)
    K.run(K.gen("gen_update_vorticity_from_velocity_forcing_pyst_kernel_3d"),
          vorticity_field=om, velocity_forcing_field=a, prefactor=p)
    for i, e in enumerate(_curl3(A, X)):
        K.ensures_eq(f"forcing_update_comp{i}", K.value(om, (i,) + c), K.old(om, (i,) + c) + p * 2 * dx * e)
    B = [Poly(K, n, 3) for n in ("bx", "by", "bz")]
    b = vec_sampled(K, "velocity", shape, dx, 3, B)
    om2 = K.field("vorticity_field_2", (3,) + shape)
    K.run(K.gen("gen_update_vorticity_from_penalised_velocity_pyst_kernel_3d"),
          vorticity_field=om2, penalised_velocity_field=a, velocity_field=b, prefactor=p)
    ca, cb = _curl3(A, X), _curl3(B, X)
    for i in range(3):
        K.ensures_eq(f"penalised_update_comp{i}", K.value(om2, (i,) + c),
                     K.old(om2, (i,) + c) + p * 2 * dx * (ca[i] - cb[i]))
    # vortex stretching flux: (omega . grad) u_k with arbitrary omega and polynomial velocity
    w = K.field("omega", (3,) + shape)
    fl = K.field("stretching_flux", (3,) + shape)
    K.run(K.gen("gen_vorticity_stretching_flux_pyst_kernel_3d"), vorticity_stretching_flux_field=fl,
          vorticity_field=w, velocity_field=a, prefactor=p)
    for kk in range(3):
        K.ensures_eq(f"stretching_comp{kk}", K.value(fl, (kk,) + c),
                     p * 2 * dx * sum(K.old(w, (i,) + c) * A[kk].d(NAMES[i])(X) for i in range(3)))


@unit("consistency_filter_laplacians_3d", props=("C05",))
def consistency_filter_laplacians_3d(K):
    """the one-dimensional filter Laplacians, observed through the order-1 convolution filter
    (1-F_z)(1-F_y)(1-F_x): on degree-2 polynomials F_a P = -(dx^2/4) d^2P/da^2 (a constant), so the
    filter returns P + dx^2/4 * Laplacian(P); through the multiplicative filter F_z F_y F_x P = 0."""
    shape, dx = gshape(K, 3), K.real("dx", pos=True)
    P = Poly(K, "a", 3)
    for ftype in ("convolution", "multiplicative"):
        f = sampled(K, f"field_{ftype}", shape, dx, 3, P)
        k = K.gen("gen_laplacian_filter_kernel_3d", filter_order=1, filter_flux_buffer=K.field(f"flux_{ftype}", shape),
                  field_buffer=K.field(f"buf_{ftype}", shape), field_type="scalar", filter_type=ftype)
        K.run(k, scalar_field=f)
        c = K.cell(shape, margin=2)
        X = centre(c, dx, 3)
        lapP = sum(P.d(ax).d(ax)(X) for ax in NAMES)
        if ftype == "convolution":
            K.ensures_eq("convolution_filter_is_P_plus_dx2_over_4_laplacian", K.value(f, c), P(X) + dx**2 / 4 * lapP)
        else:
            K.ensures_eq("multiplicative_filter_is_identity_on_quadratics", K.value(f, c), P(X))


@unit("consistency_eno3", props=("C05",), configs=[dict(dim=2), dict(dim=3)])
def consistency_eno3(K, dim):
    """(Phi[c] - Phi[c-e]) / dx = G'(x_c) for nodal fluxes g_k = field_k * velocity_k = G(x_k):
    exactly for cubic G when both faces upwind alike, for quadratic G otherwise.  The nodal products
    of the real closure's result are replaced by G(x_k) (Laurent substitution velocity_k -> G(x_k)/field_k)."""
    from svx.sym import ATOMS, Sym
    shape, dx = gshape(K, dim), K.real("dx", pos=True)
    k = K.gen(f"gen_advection_flux_conservative_eno3_pyst_kernel_{dim}d")
    flux, f, v = K.field("advection_flux", shape), K.field("field", shape), K.field("velocity", (dim,) + shape)
    inv_dx = K.real("inv_dx")
    K.run(k, advection_flux=flux, field=f, velocity=v, inv_dx=inv_dx)
    if K.mode != "sym":
        return
    c = K.cell(shape, margin=2)
    coef = {deg: [K.real(f"g{deg}_{i}") for i in range(deg + 1)] for deg in (2, 3)}
    for ax in AXES[dim]:
        a = AX[ax] % dim
        vr = lambda cc: K.old(v, (COMP[ax],) + tuple(cc))
        up_front = vr(c) + vr(sh(c, ax, 1)) > 0
        up_back = vr(sh(c, ax, -1)) + vr(c) > 0
        others = [b for b in AXES[dim] if b != ax]
        for sf, sb in itertools.product((True, False), repeat=2):
            deg = 3 if sf == sb else 2
            guard = [up_front if sf else not_(up_front), up_back if sb else not_(up_back)]
            for _ in K.case(and_(*guard)):
                val = K.value(flux, c) - K.old(flux, c)
                # keep only this axis' contribution: velocities of the other axes set to zero is not
                # possible under the branch guards in general, so subtract the other axes' spec-free part
                # by zeroing the FIELD*VELOCITY products of the other axes via substitution below
                G = lambda x, deg=deg: sum(coef[deg][i] * x**i for i in range(deg + 1))
                dG = lambda x, deg=deg: sum(i * coef[deg][i] * x ** (i - 1) for i in range(1, deg + 1))
                mapping = {}
                for koff in range(-2, 3):
                    cc = sh(c, ax, koff)
                    x_k = (cc[a] + Fr(1, 2)) * dx
                    vat = K.old(v, (COMP[ax],) + cc)
                    fat = K.old(f, cc)
                    (m, _), = vat.p.items()
                    mapping[m[0][0]] = G(x_k) * fat.inverse(note=False)
                for b in others:
                    for koff in range(-2, 3):
                        cc = sh(c, b, koff)
                        (m, _), = K.old(v, (COMP[b],) + cc).p.items()
                        mapping[m[0][0]] = Sym.const(0)
                got = val.subst(mapping)
                x_c = (c[a] + Fr(1, 2)) * dx
                K.ensures_eq(f"flux_difference_is_dG[{ax},front{'+' if sf else '-'},back{'+' if sb else '-'},deg{deg}]",
                             got, inv_dx * dx * dG(x_c))
