"""C10: the virtual-boundary feedback is the documented PI law over ANY call history.

Method contracts of the real `VirtualBoundaryForcing` (every public method, from an ARBITRARY state
satisfying the class invariant, ghost integral I) and of the real `ImmersedBodyFlowInteraction`
(constructor rescaling, call wiring against a forcing-grid contract stub).  Lemma M8 (induction
over finite call sequences from the method contracts) lifts them to all interleavings; because
spreading ACCUMULATES into arbitrary prior content, several bodies sharing one forcing field
superpose.
"""
import contextlib
import itertools
import sys
from fractions import Fraction as Fr

import numpy as np

from svx.contract import and_, ite_, not_, or_, unit

from .c_interp import W, _win_cells

VB_MOD = "sopht.numeric.immersed_boundary_ops.VirtualBoundaryForcing"
IB_MOD = "sopht.simulator.immersed_body.immersed_body_flow_interaction"


_NATIVE = [False]  # the unit text below also runs on the compiled code (replays, bounded native runs)


def set_mode(K):
    _NATIVE[0] = K.mode != "sym"
    return _NATIVE[0]


@contextlib.contextmanager
def _object_array_modules(*mods):
    import importlib

    from svx import objnp
    ms = [importlib.import_module(m) if m not in sys.modules else sys.modules[m] for m in mods]
    saved = [(m, m.np) for m in ms]
    try:
        for m in ms:
            m.np = objnp.ObjNp()
        yield
    finally:
        for m, v in saved:
            m.np = v


def object_array_modules(*mods):
    return contextlib.nullcontext() if _NATIVE[0] else _object_array_modules(*mods)


def S_(x):
    """exact symbol in the symbolic mode; plain float when the same unit text runs on the compiled code"""
    if _NATIVE[0]:
        return float(x)
    from svx.field import S
    return S(x)


def fresh(K, name, shape):
    """arbitrary (stale) prior content under a stable name, so that a counterexample can be replayed"""
    if K.mode == "sym":
        from svx import objnp
        return objnp.fresh(name, shape)
    return K.array(name, shape)


def real_type(K):
    if K.mode == "sym":
        from svx.symnp import SymReal64
        return SymReal64
    return K.real_t


def setup_vbf(K, dim, n_mark, reset):
    """a real VirtualBoundaryForcing object in an arbitrary state satisfying the class invariant"""
    set_mode(K)
    SymReal = real_type(K)
    shape = tuple(K.ext(n, lo=4 if K.mode == "sym" else 8) for n in ("nz", "ny", "nx")[3 - dim:])
    dx = K.real("dx", pos=True)
    k, c = K.real("stiffness_coeff"), K.real("damping_coeff")
    t0 = K.real("start_time")
    with object_array_modules(VB_MOD):
        cls = K.repo(f"{VB_MOD}:VirtualBoundaryForcing")
        if K.mode != "sym":
            # call history on the compiled code: the forcing object of ANOTHER body (other spacing, coefficients, marker
            # count kept) was constructed first in the same process
            cls(virtual_boundary_stiffness_coeff=2.0 * k + 1.0, virtual_boundary_damping_coeff=c - 1.0, grid_dim=dim,
                dx=2.0 * dx, num_lag_nodes=n_mark, real_t=SymReal, enable_eul_grid_forcing_reset=not reset, num_threads=1,
                start_time=t0 + 1.0)
        vbf = cls(virtual_boundary_stiffness_coeff=k, virtual_boundary_damping_coeff=c, grid_dim=dim, dx=dx,
                  num_lag_nodes=n_mark, real_t=SymReal, enable_eul_grid_forcing_reset=reset, num_threads=2,
                  start_time=t0)
    # ---- constructor postcondition ----------------------------------------------------------------
    for idx in np.ndindex(dim, n_mark):
        K.ensures_eq(f"constructor_integral_starts_at_zero{list(idx)}", vbf.lag_grid_position_mismatch_field[idx], 0)
        K.ensures_eq(f"constructor_mismatch_starts_at_zero{list(idx)}", vbf.lag_grid_velocity_mismatch_field[idx], 0)
    K.ensures_eq("constructor_time", vbf.time, t0)
    K.ensures_eq("constructor_stiffness", vbf.virtual_boundary_stiffness_coeff, k)
    K.ensures_eq("constructor_damping", vbf.virtual_boundary_damping_coeff, c)
    K.ensures("constructor_mode", (vbf.compute_interaction_forcing.__func__ is (
        cls.compute_interaction_force_on_eul_and_lag_grid_with_eul_grid_forcing_reset if reset
        else cls.compute_interaction_force_on_eul_and_lag_grid)))
    # ---- arbitrary reachable state: ghost integral I, last mismatch Vm, clock t, garbage elsewhere ------
    I = fresh(K, "integral_I", (dim, n_mark))
    Vm = fresh(K, "last_velocity_mismatch", (dim, n_mark))
    vbf.lag_grid_position_mismatch_field[...] = I
    vbf.lag_grid_velocity_mismatch_field[...] = Vm
    vbf.lag_grid_forcing_field[...] = fresh(K, "stale_forcing", (dim, n_mark))
    vbf.lag_grid_flow_velocity_field[...] = fresh(K, "stale_flow_velocity", (dim, n_mark))
    t = K.real("time_t")
    vbf.time = t
    return shape, dx, k, c, vbf, I.copy(), Vm.copy(), t


def marker_inputs(K, dim, n_mark, shape, dx, prefix=""):
    m, s = {}, {}
    for i in range(n_mark):
        for a in range(dim):
            m[a, i] = K.int(f"{prefix}m{a}_{i}", lo=1, hi=shape[dim - 1 - a] - 3)
            s[a, i] = K.real(f"{prefix}s{a}_{i}")
            if _NATIVE[0] and not (0 <= s[a, i] < 1):  # random runs: fold the draw into the cell
                s[a, i] = s[a, i] % 1.0
            K.requires(and_(s[a, i] >= 0, s[a, i] < 1))
    X = K.array("lag_grid_position_field", (dim, n_mark), init=lambda idx: (m[idx] + s[idx]) * dx + dx / 2)
    V = K.array("lag_grid_velocity_field", (dim, n_mark))
    return m, s, X, V


def interp_of(K, u, wts, m, dim, dx, comp, i):
    return sum(K.old(u, (comp,) + cell) * S_(wts[kk + (i,)]) for kk, cell in _win_cells(dim, m, i)) * dx**dim


@unit("virtual_boundary_methods", props=("C10",), kernels=True,
      configs=[dict(dim=d, method=mth, reset=r) for d in (2, 3)
               for mth, r in (("lag_only", False), ("lag_only_after_another_evaluation", False), ("eul_and_lag", False),
                              ("eul_and_lag_reset", True), ("time_step", False),
                              ("time_step_after_time_step", False), ("time_step_after_evaluation", False))],
      assumes=("M8: a property of every reachable state follows by induction over the call sequence from the constructor "
               "postcondition and the method contracts (each proved from an ARBITRARY state satisfying the invariant)",))
def virtual_boundary_methods(K, dim, method, reset):
    native = set_mode(K)
    n_mark = 2
    shape, dx, k, c, vbf, I, Vm, t = setup_vbf(K, dim, n_mark, reset)
    if method.startswith("time_step"):
        dt = K.real("dt")  # arbitrary, not even assumed positive
        if method == "time_step_after_time_step":
            # call history: an earlier step with no evaluation in between (sub-stepping the forcing) -- the
            # integral advances over EVERY dt passed, with the last evaluated mismatch
            dt0 = K.real("dt_previous")
            vbf.time_step(dt0)
            for idx in np.ndindex(dim, n_mark):
                K.ensures_eq(f"previous_step_advanced_the_integral{list(idx)}",
                             vbf.lag_grid_position_mismatch_field[idx], I[idx] + dt0 * Vm[idx])
            I = I + dt0 * Vm
            t = t + dt0
        elif method == "time_step_after_evaluation":
            # call history: an evaluation directly before (the usual alternation): the step integrates the
            # mismatch that evaluation left, from the integral it left untouched
            m_, s_, X_, V_ = marker_inputs(K, dim, n_mark, shape, dx)
            u_ = K.field("eul_grid_velocity_field", (dim,) + shape)
            vbf.compute_interaction_force_on_lag_grid(u_, X_, V_)
            Vm = vbf.lag_grid_velocity_mismatch_field.copy()
            for idx in np.ndindex(dim, n_mark):
                K.ensures_eq(f"evaluation_left_the_integral{list(idx)}", vbf.lag_grid_position_mismatch_field[idx], I[idx])
        forcing_before = vbf.lag_grid_forcing_field.copy()
        vbf.time_step(dt)
        for idx in np.ndindex(dim, n_mark):
            K.ensures_eq(f"integral_advances_by_dt_times_last_mismatch{list(idx)}",
                         vbf.lag_grid_position_mismatch_field[idx], I[idx] + dt * Vm[idx])
            K.ensures_eq(f"mismatch_untouched{list(idx)}", vbf.lag_grid_velocity_mismatch_field[idx], Vm[idx])
            K.ensures_eq(f"force_untouched{list(idx)}", vbf.lag_grid_forcing_field[idx], forcing_before[idx])
        K.ensures_eq("clock_advances_by_exactly_dt", vbf.time, t + dt)
        return
    if method == "lag_only_after_another_evaluation":
        # call history: an EARLIER evaluation with other body positions / velocities / flow and no time step
        # in between (e.g. two stages of the body's time integrator) must leave no trace in this one
        m0 = {(a, i): K.int(f"prev_m{a}_{i}", lo=1, hi=shape[dim - 1 - a] - 3) for a in range(dim) for i in range(n_mark)}
        s0 = {}
        for key in m0:
            s0[key] = K.real(f"prev_s{key[0]}_{key[1]}")
            if native and not (0 <= s0[key] < 1):
                s0[key] = s0[key] % 1.0
            K.requires(and_(s0[key] >= 0, s0[key] < 1))
        X0 = K.array("previous_position_field", (dim, n_mark), init=lambda idx: (m0[idx] + s0[idx]) * dx + dx / 2)
        V0 = K.array("previous_velocity_field", (dim, n_mark))
        u_prev = K.field("previous_eul_grid_velocity_field", (dim,) + shape)
        vbf.compute_interaction_force_on_lag_grid(u_prev, X0, V0)
        method = "lag_only"
    m, s, X, V = marker_inputs(K, dim, n_mark, shape, dx)
    u = K.field("eul_grid_velocity_field", (dim,) + shape)
    f = K.field("eul_grid_forcing_field", (dim,) + shape)
    if method != "lag_only" and not native:
        # modular step: the Lagrangian evaluation is replaced by its contract (proved in the lag_only
        # configurations): marker force / weights become opaque values, nearest index = containing cell
        # (on the compiled code the real Lagrangian evaluation runs instead)
        from svx import objnp
        passed = []

        def lag_summary(eul_grid_velocity_field, lag_grid_position_field, lag_grid_velocity_field):
            passed.append((eul_grid_velocity_field, lag_grid_position_field, lag_grid_velocity_field))
            vbf.lag_grid_forcing_field[...] = objnp.fresh("marker_force", (dim, n_mark))
            vbf.interp_weights[...] = objnp.fresh("weights", (2 * W,) * dim + (n_mark,))
            for idx in np.ndindex(dim, n_mark):
                vbf.nearest_eul_grid_index_to_lag_grid[idx] = m[idx]

        vbf.compute_interaction_force_on_lag_grid = lag_summary
    if method == "lag_only":
        vbf.compute_interaction_force_on_lag_grid(u, X, V)
    elif method == "eul_and_lag":
        vbf.compute_interaction_force_on_eul_and_lag_grid(f, u, X, V)
    else:
        vbf.compute_interaction_force_on_eul_and_lag_grid_with_eul_grid_forcing_reset(f, u, X, V)
    wts = vbf.interp_weights
    F = vbf.lag_grid_forcing_field
    if method != "lag_only" and not native:
        K.ensures("lagrangian_evaluation_called_once_with_the_same_flow_and_body_arrays",
                  len(passed) == 1 and passed[0][0] is u and passed[0][1] is X and passed[0][2] is V)
    for i in range(n_mark):
        if method != "lag_only":
            break
        for a in range(dim):
            K.ensures_eq(f"nearest_index_is_containing_cell[{a},{i}]", vbf.nearest_eul_grid_index_to_lag_grid[a, i], m[a, i])
            iu = interp_of(K, u, wts, m, dim, dx, a, i)
            K.ensures_eq(f"flow_velocity_at_marker_is_interpolation[{a},{i}]", vbf.lag_grid_flow_velocity_field[a, i], iu)
            K.ensures_eq(f"mismatch_is_interpolated_flow_minus_body_velocity[{a},{i}]",
                         vbf.lag_grid_velocity_mismatch_field[a, i], iu - K.aold(V, (a, i)))
            K.ensures_eq(f"force_is_stiffness_times_integral_plus_damping_times_mismatch[{a},{i}]",
                         F[a, i], k * I[a, i] + c * (iu - K.aold(V, (a, i))))
            K.ensures_eq(f"evaluation_leaves_the_integral_unchanged[{a},{i}]", vbf.lag_grid_position_mismatch_field[a, i], I[a, i])
    for idx in np.ndindex(dim, n_mark):
        K.ensures_eq(f"integral_unchanged{list(idx)}", vbf.lag_grid_position_mismatch_field[idx], I[idx])
    K.ensures_eq("evaluation_leaves_the_clock_unchanged", vbf.time, t)
    K.unchanged("flow_velocity_field_never_modified", u)
    K.array_unchanged("body_positions_never_modified", X)
    K.array_unchanged("body_velocities_never_modified", V)
    cc = K.cell(shape)
    if method == "lag_only":
        K.unchanged("eulerian_forcing_untouched_by_lagrangian_evaluation", f)
        return
    for comp in range(dim):
        add = 0
        for i in range(n_mark):
            for kk, cell in _win_cells(dim, m, i):
                hit = and_(*[cc[ax] == cell[ax] for ax in range(dim)])
                add = add + ite_(hit, S_(F[comp, i]) * S_(wts[kk + (i,)]), 0)
        base = 0 if method == "eul_and_lag_reset" else K.old(f, (comp,) + cc)
        K.ensures_eq(f"eulerian_forcing_is_{'zero' if method == 'eul_and_lag_reset' else 'prior_content'}_plus_spread_force[{comp}]",
                     K.value(f, (comp,) + cc), base + add)


class ForcingGridStub:
    """contract of a forcing grid as seen by ImmersedBodyFlowInteraction: records the call order"""
    log = None

    def __init__(self, grid_dim, **kw):
        from svx import objnp
        self.grid_dim = grid_dim
        self.kw = kw
        self.num_lag_nodes = kw["num_lag_nodes"]
        self.position_field = objnp.fresh("grid_position", (grid_dim, self.num_lag_nodes))
        self.velocity_field = objnp.fresh("grid_velocity", (grid_dim, self.num_lag_nodes))
        self.spacing = kw["spacing"]
        ForcingGridStub.log = []

    def compute_lag_grid_position_field(self):
        ForcingGridStub.log.append("position")

    def compute_lag_grid_velocity_field(self):
        ForcingGridStub.log.append("velocity")

    def transfer_forcing_from_grid_to_body(self, body_flow_forces, body_flow_torques, lag_grid_forcing_field):
        ForcingGridStub.log.append(("transfer", body_flow_forces, body_flow_torques, lag_grid_forcing_field))

    def get_maximum_lagrangian_grid_spacing(self):
        return self.spacing


@unit("immersed_body_flow_interaction_wiring", props=("C10", "C08"), kernels=False,
      configs=[dict(dim=d, reset=r) for d in (2, 3) for r in (False, True)])
def immersed_body_flow_interaction_wiring(K, dim, reset):
    if K.mode != "sym":
        return None
    from svx import objnp
    from svx.symnp import SymReal64 as SymReal
    n_mark = 2
    shape = tuple(K.ext(n, lo=4) for n in ("nz", "ny", "nx")[3 - dim:])
    dx = K.real("dx", pos=True)
    k, c = K.real("stiffness_coeff_user"), K.real("damping_coeff_user")
    h = K.real("max_lag_grid_spacing", pos=True)
    K.requires(and_(h <= 2 * dx, h >= dx / 2))  # resolved regime (the other two regimes only log a warning)
    t0 = K.real("start_time")
    u = K.field("eul_grid_velocity_field", (dim,) + shape)
    f = K.field("eul_grid_forcing_field", (dim,) + shape)
    body_forces, body_torques = objnp.fresh("body_flow_forces", (3, 3)), objnp.fresh("body_flow_torques", (3, 2))

    class _Flags:
        writeable = True
    # the real constructor marks its velocity view read-only (ndarray.flags): give symbolic views the attribute
    type(u).flags = property(lambda self: self.__dict__.setdefault("_flags", _Flags()))
    with object_array_modules(VB_MOD, IB_MOD):
        cls = K.repo(f"{IB_MOD}:ImmersedBodyFlowInteraction")
        obj = cls(eul_grid_forcing_field=f, eul_grid_velocity_field=u, body_flow_forces=body_forces,
                  body_flow_torques=body_torques, forcing_grid_cls=ForcingGridStub,
                  virtual_boundary_stiffness_coeff=k, virtual_boundary_damping_coeff=c, dx=dx, grid_dim=dim,
                  real_t=SymReal, enable_eul_grid_forcing_reset=reset, start_time=t0, num_lag_nodes=n_mark, spacing=h)
    K.ensures_eq("stiffness_scaled_by_spacing_to_the_dim_minus_1", obj.virtual_boundary_stiffness_coeff, k * h ** (dim - 1))
    K.ensures_eq("damping_scaled_by_spacing_to_the_dim_minus_1", obj.virtual_boundary_damping_coeff, c * h ** (dim - 1))
    K.ensures("velocity_view_marked_read_only", obj.eul_grid_velocity_field.flags.writeable is False)
    K.ensures("views_share_the_simulator_fields", obj.eul_grid_velocity_field.buf is u.buf and obj.eul_grid_forcing_field.buf is f.buf)
    K.ensures_eq("clock_starts_at_start_time", obj.time, t0)
    # ---- call wiring: position, then velocity, then the right evaluation with the grid's own fields ----------
    calls = []

    def rec(name):
        def fn(*a, **kw):
            calls.append((name, a, kw, list(ForcingGridStub.log)))
        return fn

    obj.compute_interaction_force_on_lag_grid = rec("lag_only")
    obj.compute_interaction_forcing = rec("eul_and_lag")
    # (__call__ is specified semantically in interaction_call_semantics: any implementation that produces the
    # documented forcing field is accepted there)
    for entry, expected in (("compute_interaction_on_lag_grid", "lag_only"), ("compute_flow_forces_and_torques", "lag_only")):
        ForcingGridStub.log = []
        calls.clear()
        try:
            getattr(obj, entry)()
        except Exception as e:  # noqa: BLE001  -- with the evaluation methods replaced by recorders nothing else may run
            K.ensures(f"{entry}:only_dispatches_to_the_evaluation_methods", False,
                      note=f"did work of its own and raised {type(e).__name__}: {e}"[:300])
            continue
        ok = len(calls) == 1 and calls[0][0] == expected and calls[0][3][:2] == ["position", "velocity"]
        K.ensures(f"{entry}:positions_then_velocities_then_{expected}_evaluation", ok)
        if not ok:
            continue
        kw = calls[0][2]
        K.ensures(f"{entry}:evaluation_gets_the_grid_fields_and_the_read_only_flow_velocity",
                  kw.get("lag_grid_position_field") is obj.forcing_grid.position_field
                  and kw.get("lag_grid_velocity_field") is obj.forcing_grid.velocity_field
                  and kw.get("eul_grid_velocity_field") is obj.eul_grid_velocity_field
                  and (expected == "lag_only" or kw.get("eul_grid_forcing_field") is obj.eul_grid_forcing_field))
        if entry == "compute_flow_forces_and_torques":
            tr = [x for x in ForcingGridStub.log if isinstance(x, tuple)]
            K.ensures("compute_flow_forces_and_torques:transfers_the_marker_forces_to_the_body_buffers",
                      len(tr) == 1 and tr[0][1] is body_forces and tr[0][2] is body_torques
                      and tr[0][3] is obj.lag_grid_forcing_field, props=("C08", "C10"))


@unit("flow_forces_apply", props=("C08",), kernels=False)
def flow_forces_apply(K):
    """real FlowForces.apply_forces: evaluates the interaction once and ADDS the transferred wrench to
    the body's external forces / torques (prior external loads kept)."""
    if K.mode != "sym":
        return None
    from svx import objnp
    cls = K.repo("sopht.simulator.immersed_body.flow_forces:FlowForces")
    calls = []

    class Interactor:
        body_flow_forces = objnp.fresh("body_flow_forces", (3, 3))
        body_flow_torques = objnp.fresh("body_flow_torques", (3, 2))

        def compute_flow_forces_and_torques(self):
            calls.append(1)

    class System:
        external_forces = objnp.fresh("external_forces", (3, 3))
        external_torques = objnp.fresh("external_torques", (3, 2))

    it, sysm = Interactor(), System()
    f0, t0 = sysm.external_forces.copy(), sysm.external_torques.copy()
    ff = cls(it)
    ff.apply_forces(sysm, time=K.real("t"))
    K.ensures("interaction_evaluated_exactly_once", len(calls) == 1)
    for idx in np.ndindex(3, 3):
        K.ensures_eq(f"external_force_gains_the_flow_force{list(idx)}", sysm.external_forces[idx], f0[idx] + it.body_flow_forces[idx])
    for idx in np.ndindex(3, 2):
        K.ensures_eq(f"external_torque_gains_the_flow_torque{list(idx)}", sysm.external_torques[idx], t0[idx] + it.body_flow_torques[idx])


@unit("brinkmann_penalise_lagrangian", props=("C19",), kernels=False, configs=[dict(dim=2), dict(dim=3)])
def brinkmann_penalise_lagrangian(K, dim):
    """Lagrangian variant of the Brinkmann penalisation (real static method, njit neutralised):
    out = theta u + (1 - theta) u_body with theta = 1/(1 + lambda dt) in (0, 1]; out = u for lambda dt = 0;
    |out - u_body| (1 + lambda dt) = |u - u_body| (tends to the target as the penalty grows)."""
    if K.mode != "sym":
        return None
    from svx import objnp
    mod = "sopht.numeric.immersed_boundary_ops.experimental.BrinkmannBoundaryForcing"
    with object_array_modules(mod):
        cls = K.repo(f"{mod}:BrinkmannBoundaryForcing")
        fn = cls.brinkmann_penalise_lag_grid_velocity_field
        n = 3
        u, ub = K.array("lag_grid_flow_velocity_field", (dim, n)), K.array("lag_grid_body_velocity_field", (dim, n))
        out = objnp.fresh("stale_penalised", (dim, n))
        lam, dt = K.real("brinkmann_coeff", nonneg=True), K.real("dt", nonneg=True)
        fn(out, u, ub, lam, dt)
    K.array_unchanged("flow_velocity_untouched", u)
    K.array_unchanged("body_velocity_untouched", ub)
    theta = 1 / (1 + lam * dt)
    K.ensures("theta_in_(0,1]", and_(theta > 0, theta <= 1))
    for idx in np.ndindex(dim, n):
        o, a, b = S_(out[idx]), K.aold(u, idx), K.aold(ub, idx)
        K.ensures_eq(f"convex_combination{list(idx)}", o, theta * a + (1 - theta) * b)
        K.ensures_eq(f"identity_for_zero_penalty{list(idx)}", o, a, when=(lam * dt == 0))
        K.ensures_eq(f"distance_to_target_contracts{list(idx)}", (o - b) * (1 + lam * dt), a - b)


@unit("interaction_call_semantics", props=("C10",), kernels=True, configs=[dict(dim=d, reset=r) for d in (2, 3) for r in (False, True)])
def interaction_call_semantics(K, dim, reset):
    """ImmersedBodyFlowInteraction.__call__ through the REAL object: marker positions / velocities are refreshed from the
    forcing grid first, then the Eulerian forcing field ends as (prior content | zero in reset mode) + spread marker force,
    over the whole grid; the flow velocity field and the integral are untouched.  (The Lagrangian evaluation is used
    through its contract, proved in virtual_boundary_methods.)"""
    if K.mode != "sym":
        return None
    from svx import objnp
    from svx.symnp import SymReal64 as SymReal
    n_mark = 2
    shape = tuple(K.ext(n, lo=4) for n in ("nz", "ny", "nx")[3 - dim:])
    dx = K.real("dx", pos=True)
    h = K.real("max_lag_grid_spacing", pos=True)
    K.requires(and_(h <= 2 * dx, h >= dx / 2))
    u = K.field("eul_grid_velocity_field", (dim,) + shape)
    f = K.field("eul_grid_forcing_field", (dim,) + shape)

    class _Flags:
        writeable = True
    type(u).flags = property(lambda self: self.__dict__.setdefault("_flags", _Flags()))
    m = {(a, i): K.int(f"m{a}_{i}", lo=1, hi=shape[dim - 1 - a] - 3) for a in range(dim) for i in range(n_mark)}
    order = []

    class Grid(ForcingGridStub):
        def compute_lag_grid_position_field(self):
            order.append("position")

        def compute_lag_grid_velocity_field(self):
            order.append("velocity")

    with object_array_modules(VB_MOD, IB_MOD):
        cls = K.repo(f"{IB_MOD}:ImmersedBodyFlowInteraction")
        obj = cls(eul_grid_forcing_field=f, eul_grid_velocity_field=u, body_flow_forces=objnp.fresh("bf", (3, 3)),
                  body_flow_torques=objnp.fresh("bt", (3, 2)), forcing_grid_cls=Grid,
                  virtual_boundary_stiffness_coeff=K.real("k"), virtual_boundary_damping_coeff=K.real("c"), dx=dx, grid_dim=dim,
                  real_t=SymReal, enable_eul_grid_forcing_reset=reset, num_lag_nodes=n_mark, spacing=h)
        I = objnp.fresh("integral_I", (dim, n_mark))
        obj.lag_grid_position_mismatch_field[...] = I
        seen = []

        def lag_summary(eul_grid_velocity_field, lag_grid_position_field, lag_grid_velocity_field):
            seen.append((list(order), eul_grid_velocity_field, lag_grid_position_field, lag_grid_velocity_field))
            obj.lag_grid_forcing_field[...] = objnp.fresh("marker_force", (dim, n_mark))
            obj.interp_weights[...] = objnp.fresh("weights", (2 * W,) * dim + (n_mark,))
            for idx in np.ndindex(dim, n_mark):
                obj.nearest_eul_grid_index_to_lag_grid[idx] = m[idx]

        obj.compute_interaction_force_on_lag_grid = lag_summary
        obj()
    K.ensures("one_lagrangian_evaluation_after_refreshing_positions_then_velocities",
              len(seen) == 1 and seen[0][0][:2] == ["position", "velocity"])
    if len(seen) == 1:
        K.ensures("evaluation_sees_the_grid_fields_and_the_flow_velocity",
                  seen[0][2] is obj.forcing_grid.position_field and seen[0][3] is obj.forcing_grid.velocity_field
                  and getattr(seen[0][1], "buf", None) is u.buf)
    F, wts = obj.lag_grid_forcing_field, obj.interp_weights
    cc = K.cell(shape)
    for comp in range(dim):
        add = 0
        for i in range(n_mark):
            for kk, cell in _win_cells(dim, m, i):
                hit = and_(*[cc[ax] == cell[ax] for ax in range(dim)])
                add = add + ite_(hit, S_(F[comp, i]) * S_(wts[kk + (i,)]), 0)
        base = 0 if reset else K.old(f, (comp,) + cc)
        K.ensures_eq(f"forcing_field_is_{'zero' if reset else 'prior_content'}_plus_spread_marker_force[{comp}]",
                     K.value(f, (comp,) + cc), base + add)
    K.unchanged("flow_velocity_field_never_modified", u)
    for idx in np.ndindex(dim, n_mark):
        K.ensures_eq(f"integral_unchanged{list(idx)}", obj.lag_grid_position_mismatch_field[idx], I[idx])
