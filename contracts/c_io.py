"""C17: save / load round trip of the real IO classes against a contract stub of h5py.

Array elements are opaque symbols (bit-exactness = identity of the symbol that arrives: any
arithmetic, cast or re-ordering on the way would change or move it; this covers NaN / inf /
denormals by parametricity).  Shapes are concrete (bounded layouts, stated in the unit).
Assumed contract of h5py: a dataset stores a verbatim copy (shape and elements) of the array given,
attrs store values verbatim, visit() enumerates every group/dataset path.
"""
import contextlib
import itertools
import os
import sys

import numpy as np

from svx.contract import unit

IO_MOD = "sopht.utils.io"


# ---- h5py contract stub ------------------------------------------------------------------------------
class _Attrs(dict):
    def __setitem__(self, k, v):
        super().__setitem__(k, np.array(v, copy=True) if isinstance(v, np.ndarray) else v)


class _Dataset:
    def __init__(self, data):
        self.data = np.array(data, dtype=object, copy=True) if getattr(data, "dtype", None) == object else np.array(data, copy=True)
        self.shape = self.data.shape

    def __getitem__(self, key):
        r = self.data[key]
        return r.copy() if isinstance(r, np.ndarray) else r

    def __len__(self):
        return self.shape[0]

    @property
    def dtype(self):
        return self.data.dtype

    @property
    def ndim(self):
        return self.data.ndim

    def read_direct(self, dest, source_sel=None, dest_sel=None):
        """h5py contract: reads straight into `dest`, which must be a C-contiguous writable array
        (h5py raises TypeError otherwise); selections default to everything"""
        if not isinstance(dest, np.ndarray) or not dest.flags.c_contiguous or not dest.flags.writeable:
            raise TypeError("Array must be C-contiguous and writable")
        src = self.data if source_sel is None else self.data[source_sel]
        if dest_sel is None:
            if np.shape(src) != dest.shape:
                raise TypeError(f"Can't broadcast {np.shape(src)} -> {dest.shape}")
            dest[...] = src
        else:
            dest[dest_sel] = src

    def write_direct(self, source, source_sel=None, dest_sel=None):
        if not isinstance(source, np.ndarray) or not source.flags.c_contiguous:
            raise TypeError("Array must be C-contiguous")
        src = source if source_sel is None else source[source_sel]
        if dest_sel is None:
            self.data[...] = src
        else:
            self.data[dest_sel] = src


class _Group:
    def __init__(self):
        self.items = {}
        self.attrs = _Attrs()

    def create_group(self, name):
        g = _Group()
        self.items[name] = g
        return g

    def create_dataset(self, name, data=None, **kw):
        if kw:
            raise NotImplementedError(f"h5py stub: create_dataset options {sorted(kw)}")
        d = _Dataset(data)
        self.items[name] = d
        return d

    def __getitem__(self, name):
        node = self
        for part in name.split("/"):
            node = node.items[part]
        return node

    def __contains__(self, name):
        try:
            self[name]
            return True
        except KeyError:
            return False

    def visit(self, fn, prefix=""):
        for k, v in self.items.items():
            p = f"{prefix}{k}"
            fn(p)
            if isinstance(v, _Group):
                v.visit(fn, p + "/")

    def keys(self):
        return self.items.keys()


STORE = {}


class _File(_Group):
    def __init__(self, name, mode="r"):
        name = str(name)
        if mode == "w":
            super().__init__()
            STORE[name] = self
            self._self = self
        else:
            if name not in STORE:
                raise FileNotFoundError(name)
            self._self = STORE[name]
            self.items = self._self.items
            self.attrs = self._self.attrs

    def __enter__(self):
        return self

    def __exit__(self, *a):
        return False


class H5pyStub:
    File = _File


@contextlib.contextmanager
def io_modules(K=None):
    import importlib

    m = importlib.import_module(IO_MOD)
    if K is not None and K.mode != "sym":
        NATIVE["on"], NATIVE["rng"] = True, K.rng
        try:
            yield m
        finally:
            NATIVE["on"] = False
        return
    from svx import objnp
    saved = (m.h5py, m.np)
    STORE.clear()
    try:
        m.h5py = H5pyStub
        m.np = objnp.ObjNp()
        yield m
    finally:
        m.h5py, m.np = saved


NATIVE = {"on": False, "rng": None, "dtype": np.float64}


def tokens(name, shape):
    if NATIVE["on"]:
        rng = NATIVE["rng"]
        a = rng.normal(size=shape)
        flat = a.reshape(-1)
        special = [np.nan, np.inf, -np.inf, 5e-324, -0.0, 1.7976931348623157e308]
        for j in range(min(len(flat), 3)):
            flat[int(rng.integers(0, len(flat)))] = special[int(rng.integers(0, len(special)))]
        if NATIVE["dtype"] is np.float32:
            with np.errstate(over="ignore", under="ignore"):
                a = a.astype(np.float32)
            flat = a.reshape(-1)
            flat[int(rng.integers(0, len(flat)))] = np.float32(1e-45)  # a single-precision denormal
        return a
    from svx import objnp
    return objnp.fresh(name, shape)


def same_array(a, b):
    a, b = np.asarray(a), np.asarray(b)
    if a.shape != b.shape:
        return False
    if a.dtype != object and b.dtype != object:
        return a.dtype == b.dtype and a.tobytes() == b.tobytes()  # bit-exact, NaN payloads included
    return all((x.same(y) if hasattr(x, "same") else x == y) for x, y in zip(a.ravel(), b.ravel()))


class _NativeDataset:
    def __init__(self, arr):
        self.data = arr
        self.shape = arr.shape


def dataset(f, path):
    if NATIVE["on"]:
        import h5py
        with h5py.File(f, "r") as h:
            if path not in h:
                return None
            return _NativeDataset(h[path][...])
    try:
        return f[path]
    except KeyError:
        return None


def _layouts():
    out = []
    for dim in (2, 3):
        for nmark in (1, 2, 3, 4, 5):
            out.append(dict(dim=dim, nmark=nmark, variant="full"))
        out.append(dict(dim=dim, nmark=4, variant="two_grids"))
        out.append(dict(dim=dim, nmark=4, variant="grid_without_fields"))
        out.append(dict(dim=dim, nmark=4, variant="same_field_name_on_two_grids"))
        out.append(dict(dim=dim, nmark=4, variant="eulerian_only"))
        out.append(dict(dim=dim, nmark=4, variant="non_contiguous_views"))
        out.append(dict(dim=dim, nmark=3, variant="fortran_ordered_arrays"))
        out.append(dict(dim=dim, nmark=3, variant="single_precision"))
    return out


def build(io, dim, nmark, variant, tag):
    """registers token arrays with a real IO object; returns the registry of what was registered"""
    grid = (3, 4) if dim == 2 else (2, 3, 4)
    reg = dict(eul={}, grids={}, lag={})
    io.define_eulerian_grid(origin=np.array([0.25] * dim), dx=np.array([0.5] * dim), grid_size=np.array(grid))
    reg["eul"]["vorticity"] = tokens(f"{tag}_vorticity", grid)
    reg["eul"]["velocity"] = tokens(f"{tag}_velocity", (dim,) + grid)
    if variant == "fortran_ordered_arrays":  # freshly allocated column-major arrays (np.zeros(shape, order="F"))
        reg["eul"] = {k: np.asfortranarray(v) for k, v in reg["eul"].items()}
    io.add_as_eulerian_fields_for_io(**reg["eul"])
    if variant == "eulerian_only":
        return reg
    names = ["bodyA"] + (["bodyB"] if variant in ("two_grids", "same_field_name_on_two_grids") else [])
    for gi, g in enumerate(names):
        n = nmark + gi
        if variant == "non_contiguous_views":  # (dim, N) views of marker-major / strided storage
            reg["grids"][g] = tokens(f"{tag}_{g}_grid", (n, dim)).T
        elif variant == "fortran_ordered_arrays":
            reg["grids"][g] = np.asfortranarray(tokens(f"{tag}_{g}_grid", (dim, n)))
        else:
            reg["grids"][g] = tokens(f"{tag}_{g}_grid", (dim, n))
        fields = {}
        if variant != "grid_without_fields":
            sfx = "" if variant == "same_field_name_on_two_grids" else f"_{g}"
            if variant == "non_contiguous_views":
                fields[f"force{sfx}"] = tokens(f"{tag}_{g}_force", (dim, 2 * n))[:, ::2]
            else:
                fields[f"force{sfx}"] = tokens(f"{tag}_{g}_force", (dim, n))
            fields[f"pressure{sfx}"] = tokens(f"{tag}_{g}_pressure", (n,))
            if variant == "fortran_ordered_arrays":
                fields = {k: np.asfortranarray(v) for k, v in fields.items()}
        reg["lag"][g] = fields
        io.add_as_lagrangian_fields_for_io(lagrangian_grid=reg["grids"][g], lagrangian_grid_name=g, **fields)
    return reg


@unit("io_round_trip", props=("C17",), configs=_layouts(), kernels=False,
      assumes=("h5py contract: datasets / attrs store verbatim copies, visit() enumerates all paths (svx stub)",
               "layouts bounded: dim 2/3, grids 3x4 / 2x3x4, marker counts 1..5 incl. N == dim, 1-2 Lagrangian grids, "
               "grids without fields, equal field names on two grids, strided views, column-major arrays; values: opaque "
               "symbols (all contents)",
               "'origin, spacing or grid size differ' read as differing beyond numpy.allclose's default tolerance"))
def io_round_trip(K, dim, nmark, variant):
    sym = K.mode == "sym"
    # "single_precision": on the compiled code every registered array is float32 (SophT's default precision); the symbolic
    # run is precision-agnostic (opaque symbols)
    NATIVE["dtype"] = np.float32 if variant == "single_precision" else np.float64
    work = os.path.join(os.environ.get("SVX_WORK", os.path.join(os.path.dirname(os.path.dirname(os.path.abspath(__file__))), ".work")),
                        f"io_{os.getpid()}")
    os.makedirs(work, exist_ok=True)
    fname = os.path.join(work, f"state_{dim}_{nmark}_{variant}.h5")
    with io_modules(K) as m:
        IO = K.repo(f"{IO_MOD}:IO")
        src = IO(dim=dim)
        reg = build(src, dim, nmark, variant, "src")
        # the registry holds REFERENCES to live arrays: values written after registration are what gets saved
        for g in reg["grids"]:
            reg["grids"][g][...] = tokens(f"moved_{g}_grid", reg["grids"][g].shape)
        for n_ in reg["eul"]:
            reg["eul"][n_][...] = tokens(f"later_{n_}", reg["eul"][n_].shape)
        copies = {k: {n: a.copy() for n, a in d.items()} for k, d in (("eul", reg["eul"]), ("grids", reg["grids"]))}
        lag_copies = {g: {n: a.copy() for n, a in d.items()} for g, d in reg["lag"].items()}
        t = K.real("time")
        src.save(fname, time=t)
        f = STORE[fname] if sym else fname
        # ---- (1) saving leaves the sources untouched ---------------------------------------------------------
        ok = all(same_array(reg["eul"][n], copies["eul"][n]) for n in reg["eul"]) and \
            all(same_array(reg["grids"][g], copies["grids"][g]) for g in reg["grids"]) and \
            all(same_array(reg["lag"][g][n], lag_copies[g][n]) for g in reg["lag"] for n in reg["lag"][g])
        K.ensures("saving_leaves_the_source_arrays_untouched", ok)
        # ---- (2) documented on-disk layout ------------------------------------------------------------------------
        grid = reg["eul"]["vorticity"].shape
        d = dataset(f, "Eulerian/Scalar/vorticity")
        K.ensures("eulerian_scalar_stored_with_leading_singleton", d is not None and d.shape == (1,) + grid and same_array(d.data[0], reg["eul"]["vorticity"]))
        for c in range(dim):
            d = dataset(f, f"Eulerian/Vector/velocity_{c}")
            K.ensures(f"eulerian_vector_stored_per_component_with_leading_singleton[{c}]",
                      d is not None and d.shape == (1,) + grid and same_array(d.data[0], reg["eul"]["velocity"][c]))
        if sym:
            K.ensures("time_stamp_stored", hasattr(f.attrs.get("time"), "same") and f.attrs["time"].same(t))
        else:
            import h5py
            with h5py.File(fname, "r") as h:
                K.ensures("time_stamp_stored", float(h.attrs["time"]) == t)
        for g, garr in reg["grids"].items():
            n = garr.shape[1]
            d = dataset(f, f"Lagrangian/{g}/Grid")
            K.ensures(f"lagrangian_grid_stored_marker_major[{g}]", d is not None and d.shape == (n, dim) and same_array(d.data, garr.T))
            for fn, farr in reg["lag"][g].items():
                if farr.ndim == 2:
                    d = dataset(f, f"Lagrangian/{g}/Vector/{fn}")
                    K.ensures(f"lagrangian_vector_field_stored_marker_major_(N,dim)_under_Vector[{g}.{fn}]",
                              d is not None and d.shape == (n, dim) and same_array(d.data, lag_copies[g][fn].T))
                else:
                    d = dataset(f, f"Lagrangian/{g}/Scalar/{fn}")
                    K.ensures(f"lagrangian_scalar_field_stored_under_Scalar[{g}.{fn}]",
                              d is not None and d.shape == (n,) and same_array(d.data, lag_copies[g][fn]))
        if variant == "same_field_name_on_two_grids":
            # recorded finding F6 (known_findings.json): the registry is keyed by field name only, so the array
            # registered LAST under a name is written into (and read back for) every grid that uses the name
            for fn in reg["lag"]["bodyA"]:
                kind = "Vector" if reg["lag"]["bodyA"][fn].ndim == 2 else "Scalar"
                d = dataset(f, f"Lagrangian/bodyA/{kind}/{fn}")
                last = lag_copies["bodyB"][fn]
                K.signature_bool(f"F6_signature[{fn}]", d is not None and same_array(d.data, last.T if kind == "Vector" else last))
        # ---- (3) load into freshly allocated arrays registered under the same names ---------------------------------
        dst = IO(dim=dim)
        reg2 = build(dst, dim, nmark, variant, "dst")
        t2 = dst.load(fname)
        K.ensures("time_stamp_restored", (hasattr(t2, "same") and t2.same(t)) if sym else float(t2) == t)
        for n in reg["eul"]:
            K.ensures(f"eulerian_field_restored[{n}]", same_array(reg2["eul"][n], copies["eul"][n]))
        for g in reg["grids"]:
            K.ensures(f"lagrangian_grid_restored[{g}]", same_array(reg2["grids"][g], copies["grids"][g]))
            for fn in reg["lag"][g]:
                K.ensures(f"lagrangian_field_restored[{g}.{fn}]", same_array(reg2["lag"][g][fn], lag_copies[g][fn]))
        # ---- (4) a file lacking a registered field / grid, or with other grid parameters, is rejected -------------------
        if sym:
            paths = []
            f.visit(paths.append)
            leaves = [p for p in paths if isinstance(f[p], _Dataset) and not p.endswith("Connection")]
        else:
            import h5py
            leaves = []
            with h5py.File(fname, "r") as h:
                h.visititems(lambda p, o: leaves.append(p) if isinstance(o, h5py.Dataset) and not p.endswith("Connection") else None)
        for p in leaves:
            if sym:
                parent, _, leaf = p.rpartition("/")
                node = f[parent]
                removed = node.items.pop(leaf)
            else:
                with h5py.File(fname, "a") as h:
                    removed = h[p][...]
                    del h[p]
            dst3 = IO(dim=dim)
            build(dst3, dim, nmark, variant, "dst3")
            K.expect_raises(f"load_rejects_file_without[{p}]", (ValueError, KeyError), dst3.load, fname)
            if sym:
                node.items[leaf] = removed
            else:
                with h5py.File(fname, "a") as h:
                    h.create_dataset(p, data=removed)
        perturb = [(attr, delta, ax) for attr, delta in (("origin", 0.01), ("dx", 0.01), ("grid_size", 1))
                   for ax in [None] + list(range(dim))]
        for attr, delta, ax in perturb:
            def bump(keep, delta=delta, ax=ax):
                new = np.array(keep, copy=True)
                if ax is None:
                    new = new + delta
                else:
                    new[ax] = new[ax] + delta  # the file differs along ONE axis only
                return new
            if sym:
                params = f["Eulerian/Parameters"].attrs
                keep = params[attr]
                params[attr] = bump(keep)
            else:
                with h5py.File(fname, "a") as h:
                    keep = h["Eulerian/Parameters"].attrs[attr]
                    h["Eulerian/Parameters"].attrs[attr] = bump(keep)
            dst4 = IO(dim=dim)
            build(dst4, dim, nmark, variant, "dst4")
            K.expect_raises(f"load_rejects_different_{attr}[{'all axes' if ax is None else 'axis %d only' % ax}]", (ValueError,), dst4.load, fname)
            if sym:
                dict.__setitem__(params, attr, keep)
            else:
                with h5py.File(fname, "a") as h:
                    h["Eulerian/Parameters"].attrs[attr] = keep


@unit("io_round_trip_native_precisions", props=("C17", "C18"), kernels=False, native_check=True,
      configs=[dict(dim=d, variant=v) for d in (2, 3) for v in ("single_precision", "full", "fortran_ordered_arrays")],
      desc="BOUNDED native stand-in for the assumed h5py contract: the real IO methods on real h5py files with float32 and "
           "float64 payloads (NaN, inf, denormals), values written after registration")
def io_round_trip_native_precisions(K, dim, variant):
    """the io_round_trip clauses on the compiled stack (real h5py, real numpy dtypes) on every run of the check"""
    if K.mode == "sym":
        return None
    return io_round_trip(K, dim, 3, variant)


@unit("io_derived_classes", props=("C17",), configs=[dict(dim=2), dict(dim=3)], kernels=False,
      assumes=("h5py contract stub", "rod with 3 elements; 3x4 / 2x3x4 grids"))
def io_derived_classes(K, dim):
    if K.mode != "sym":
        return None
    from fractions import Fraction as Fr

    from svx.field import S
    work = os.path.join(os.environ.get("SVX_WORK", "/tmp"), f"io_{os.getpid()}")
    os.makedirs(work, exist_ok=True)
    with io_modules() as m:
        # ---- CosseratRodIO: element positions recomputed at every save, radius as scalar field ------------------
        E = 3

        class Rod:
            n_elems = E
            position_collection = tokens("x_node", (3, E + 1))
            radius = tokens("radius", (E,))

        RodIO = K.repo(f"{IO_MOD}:CosseratRodIO")
        rio = RodIO(Rod, dim=dim)
        Rod.position_collection = tokens("x_node_later", (3, E + 1))  # the rod moves before the save
        fname = os.path.join(work, "rod.h5")
        rio.save(fname, time=K.real("t_rod"))
        d = dataset(STORE[fname], "Lagrangian/rod/Grid")
        ok = d is not None and d.shape == (E, dim)
        if ok:
            for e in range(E):
                for a in range(dim):
                    exp = Fr(1, 2) * (S(Rod.position_collection[a, e]) + S(Rod.position_collection[a, e + 1]))
                    ok = ok and S(d.data[e, a]).same(exp)
        K.ensures("rod_io_saves_current_element_centres_marker_major", ok)
        d = dataset(STORE[fname], "Lagrangian/rod/Scalar/scalar_3d")
        K.ensures("rod_io_saves_radius_as_scalar_field", d is not None and same_array(d.data, Rod.radius))
        # ---- EulerianFieldIO: origin = per-axis minima in z-y-x order, dx from the x coordinate, grid size -------------
        grid = (3, 4) if dim == 2 else (2, 3, 4)
        dxv = 0.5
        pos = np.zeros((dim,) + grid)
        for idx in np.ndindex(*grid):
            for a in range(dim):  # component a: x=0 along the LAST axis
                pos[(a,) + idx] = (idx[dim - 1 - a] + 0.5) * dxv + 10.0 * (a + 1)
        EIO = K.repo(f"{IO_MOD}:EulerianFieldIO")
        fields = dict(vorticity=tokens("w", grid), velocity=tokens("u", (dim,) + grid))
        saved_np = m.np
        m.np = np  # the coordinate field is a concrete float array: numpy's own min / ones
        try:
            eio = EIO(position_field=pos, eulerian_fields_dict=fields)
        finally:
            m.np = saved_np
        exp_origin = [0.5 * dxv + 10.0 * (a + 1) for a in reversed(range(dim))]
        K.ensures("eulerian_field_io_origin_is_minima_in_zyx_order", np.allclose(eio.eulerian_origin, exp_origin))
        K.ensures("eulerian_field_io_spacing", np.allclose(eio.eulerian_dx, [dxv] * dim))
        K.ensures("eulerian_field_io_grid_size", list(eio.eulerian_grid_size) == list(grid))
        K.ensures("eulerian_field_io_registers_fields", set(eio.eulerian_fields) == {"vorticity", "velocity"}
                  and eio.eulerian_fields_type == {"vorticity": "Scalar", "velocity": "Vector"})
