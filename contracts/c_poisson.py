"""C03: the unbounded (FFT) Poisson solver classes against the assumed contract of FFTW.

The real `UnboundedPoissonSolverPYFFTW{2,3}D` (constructor, Green's function construction, solve,
vector_field_solve) runs with SYMBOLIC grid sizes and domain length; `np` is rebound to svx.symnp
and the FFT wrapper class is replaced by a contract stub:

  rfft(input_array=A, output_array=B)    B := RFFT(A)  (opaque array term of a snapshot of A)
  irfft(input_array=C, output_array=D)   requires, at every frequency, C == RFFT(A) * RFFT(G) * s
                                         exactly (complex product, real scalar s) for two earlier
                                         snapshots A, G; then D := s * CircConv(A, G)  (opaque)

With lemma M4 (circular convolution on the doubled grid of a zero-padded source with an
even-reflected kernel, restricted to the original box, is the aperiodic convolution) the obligations
below give: solution[j] = sum_k g(|j-k| dx) rhs[k] dx^d with g the free-space Green's function.
"""
import contextlib
import sys
from fractions import Fraction as Fr

from svx.contract import and_, ite_, not_, or_, unit

SOLVER_MODS = {2: "sopht.numeric.eulerian_grid_ops.poisson_solver_2d.UnboundedPoissonSolverPYFFTW2D",
               3: "sopht.numeric.eulerian_grid_ops.poisson_solver_3d.UnboundedPoissonSolverPYFFTW3D"}


def S_(x):
    from svx.field import S
    return S(x)


class FFTStub:
    """contract stub of FFTPyFFTW{2,3}D (buffers + forward / backward plans)"""
    last = None

    def __init__(self, num_threads=1, real_t=None, **sizes):
        from svx.field import Buffer
        self.sizes = sizes
        dims = [sizes[k] for k in ("grid_size_z", "grid_size_y", "grid_size_x") if k in sizes]
        self.dims = [S_(d) for d in dims]
        fshape = self.dims[:-1] + [self.dims[-1] * Fr(1, 2) + 1]  # n_x // 2 + 1 for the (even) doubled size
        self.field_pyfftw_buffer = Buffer("domain_doubled_buffer", self.dims).full_view()
        self.fourier_field_pyfftw_buffer = Buffer("domain_doubled_fourier_buffer", fshape + [2], kind="complex").full_view()
        self.forward = []   # snapshots (lazy) of every forward transform's input
        self.backward = []  # (input lazy, matched A index, matched G index, scalar)
        self.fft_plan = self._rfft
        self.ifft_plan = self._irfft
        FFTStub.last = self

    def _rfft(self, input_array, output_array):
        from svx.field import View
        from svx.sym import Sym, mk_atom
        from svx.symnp import as_lazy
        k = len(self.forward)
        self.forward.append(as_lazy(input_array))
        fam = f"RFFT{k}"
        out = output_array
        spec = out.spec

        def rhs(idx, fam=fam, spec=spec):
            cell = [idx[s[1]] - s[2] for s in spec if s[0] == "ax"]
            return Sym.atom(mk_atom("cell", (fam, tuple(S_(c).key() for c in cell)), "real"))

        out.buf.write(out._box(), rhs, "rfft")

    def _irfft(self, input_array, output_array):
        from svx.sym import Sym, mk_atom
        from svx.symnp import as_lazy
        k = len(self.backward)
        self.backward.append(dict(input=as_lazy(input_array), n_forward=len(self.forward)))
        fam = f"CONV{k}"
        out = output_array
        spec = out.spec

        def rhs(idx, fam=fam, spec=spec):
            cell = [idx[s[1]] - s[2] for s in spec if s[0] == "ax"]
            return Sym.atom(mk_atom("cell", (fam, tuple(S_(c).key() for c in cell)), "real"))

        out.buf.write(out._box(), rhs, "irfft")


@contextlib.contextmanager
def solver_modules(dim):
    import importlib

    import sopht.numeric.eulerian_grid_ops as spne

    from svx import symnp
    m = importlib.import_module(SOLVER_MODS[dim])
    name = f"FFTPyFFTW{dim}D"
    saved = (m.np, getattr(spne, name))
    try:
        m.np = symnp.SymNp()
        setattr(spne, name, FFTStub)
        yield m
    finally:
        m.np = saved[0]
        setattr(spne, name, saved[1])


def rfft_atom(k, idx, part):
    from svx.sym import Sym, mk_atom
    return Sym.atom(mk_atom("cell", (f"RFFT{k}", tuple(S_(c).key() for c in tuple(idx) + (part,))), "real"))


def conv_atom(k, idx):
    from svx.sym import Sym, mk_atom
    return Sym.atom(mk_atom("cell", (f"CONV{k}", tuple(S_(c).key() for c in idx)), "real"))


@unit("unbounded_poisson_solver", props=("C03", "C18"), configs=[dict(dim=2), dict(dim=3)],
      assumes=("FFTW/pyfftw contract: the forward plan writes the real DFT of its whole input into its whole output; the backward "
               "plan, given the exact complex product RFFT(A)*RFFT(G)*s, writes s*CircConv(A,G) (normalised inverse); no other state",
               "M4: circular convolution on the doubled grid of a zero-padded source with an even-reflected kernel, restricted "
               "to the original box, equals the aperiodic convolution (Hockney-Eastwood)",
               "log / sqrt as uninterpreted functions (only congruence is used)"))
def unbounded_poisson_solver(K, dim):
    if K.mode != "sym":
        return None
    from svx.sym import Sym
    from svx.symnp import SymReal64
    names = ("nz", "ny", "nx")[3 - dim:]
    n = [K.ext(nm, lo=1) for nm in names]
    L = K.real("x_range", pos=True)
    dx = L / n[-1]
    with solver_modules(dim) as m:
        cls = K.repo(f"{SOLVER_MODS[dim]}:UnboundedPoissonSolverPYFFTW{dim}D")
        kw = {f"grid_size_{a}": n[i] for i, a in enumerate("zyx"[3 - dim:])}
        sol = cls(x_range=L, num_threads=2, real_t=SymReal64, **kw)
        fft = FFTStub.last
        K.ensures("fft_buffers_are_the_doubled_domain", all(S_(a).same(2 * b) for a, b in zip(fft.dims, n)))
        K.ensures_eq("dx_is_x_range_over_nx", sol.dx, dx)
        K.ensures("one_forward_transform_at_construction", len(fft.forward) == 1)
        G = fft.forward[0]
        # ---- (a) Green's function on the doubled grid -------------------------------------------------------------
        j = K.cell([2 * x for x in n], name="g")
        pi = Sym.pi()
        # even-reflected separation along axis a, in physical units: min(x, 2 L_a - x) with x = j_a dx, L_a = n_a dx
        def refl(a):
            x = j[a] * dx
            return ite_(x <= 2 * n[a] * dx - x, x, 2 * n[a] * dx - x)

        d2 = sum(refl(a) ** 2 for a in range(dim))
        for a in range(dim):
            for _ in K.case(j[a] <= n[a]):
                K.ensures_eq(f"reflected_separation_is_min(j,2n-j)_cells[axis{a},near]", refl(a), j[a] * dx)
            for _ in K.case(j[a] > n[a]):
                K.ensures_eq(f"reflected_separation_is_min(j,2n-j)_cells[axis{a},far]", refl(a), (2 * n[a] - j[a]) * dx)
        origin = and_(*[j[a] == 0 for a in range(dim)])
        for _ in K.case(not_(origin)):
            r = d2.sqrt()
            expect = -r.log() / (2 * pi) if dim == 2 else 1 / (4 * pi * r)
            K.ensures_eq("greens_function_sampled_at_even_reflected_cell_separations", G.at(j), expect)
        for _ in K.case(origin):
            expect = -(2 * (dx / pi.sqrt()).log() - 1) / (4 * pi) if dim == 2 else 1 / (4 * pi * dx)
            K.ensures_eq("self_cell_regularisation", G.at(j), expect)
        # ---- (b) solve: arbitrary prior contents of every work buffer (any history of earlier solves) ---------------------
        K.havoc(sol.domain_doubled_buffer)
        K.havoc(sol.convolution_buffer)
        K.havoc(sol.domain_doubled_fourier_buffer)
        if dim == 2:
            rhs, out = K.field("rhs_field", n), K.field("solution_field", n)
            sol.solve(solution_field=out, rhs_field=rhs)
            solves = [((), (), 1, 0)]
        else:
            rhs, out = K.field("rhs_vector_field", [3] + n), K.field("solution_vector_field", [3] + n)
            sol.vector_field_solve(solution_vector_field=out, rhs_vector_field=rhs)
            # a component whose right-hand side the code itself has established to be identically zero on this path (a
            # global test such as `.any()`) may be solved without transforms: its solution must then be zero (the
            # convolution of zero); every other component needs its own transform pair
            from svx import ctx
            zero = [ctx.decide(Sym.I(f"allzero({rhs.buf.name}|0={c})") == 1) is True for c in range(3)]
            transformed = [c for c in range(3) if not zero[c]]
            skipped = len(fft.forward) == 1 + len(transformed) and len(transformed) < 3
            solves = [((c,), (c,), 1 + i, i) for i, c in enumerate(transformed if skipped else range(3))]
            if skipped:
                cz = K.cell(n, name="z")
                for c in range(3):
                    if zero[c]:
                        K.ensures_eq(f"solution_of_an_identically_zero_rhs_component_is_zero[{c}]", K.value(out, (c,) + cz), 0)
        K.ensures("one_forward_and_one_backward_transform_per_scalar_solve",
                  len(fft.forward) == 1 + len(solves) and len(fft.backward) == len(solves))
        if len(fft.forward) != 1 + len(solves) or len(fft.backward) != len(solves):
            return
        s = dx ** dim
        for pre_out, pre_rhs, fk, bk in solves:
            A = fft.forward[fk]
            tagc = f"[{pre_out[0]}]" if pre_out else ""
            # the transformed array is the zero-padded right-hand side
            jj = K.cell([2 * x for x in n], name="p")
            corner = and_(*[jj[a] < n[a] for a in range(dim)])
            for _ in K.case(corner):
                K.ensures_eq("doubled_buffer_holds_rhs_in_the_corner_box" + tagc, A.at(jj), K.old(rhs, pre_rhs + jj))
            for _ in K.case(not_(corner)):
                K.ensures_eq("doubled_buffer_is_zero_outside_the_corner_box" + tagc, A.at(jj), 0)
            # spectral product handed to the backward plan is exactly RFFT(A) * RFFT(G) * dx^d
            C = fft.backward[bk]["input"]
            K.ensures("backward_plan_sees_the_transforms_made_so_far" + tagc, fft.backward[bk]["n_forward"] == fk + 1)
            fshape = [2 * x for x in n[:-1]] + [n[-1] + 1]
            kk = K.cell(fshape, name="k")
            ar, ai = rfft_atom(fk, kk, 0), rfft_atom(fk, kk, 1)
            gr, gi = rfft_atom(0, kk, 0), rfft_atom(0, kk, 1)
            K.ensures_eq("spectral_product_real_part" + tagc, C.at(tuple(kk) + (0,)), (ar * gr - ai * gi) * s)
            K.ensures_eq("spectral_product_imag_part" + tagc, C.at(tuple(kk) + (1,)), (ar * gi + ai * gr) * s)
            # the solution is read from the same corner box of the inverse transform
            c = K.cell(n, name="c")
            K.ensures_eq("solution_is_the_corner_box_of_the_convolution" + tagc, K.value(out, pre_out + c), conv_atom(bk, c))
        K.unchanged("rhs_field_untouched", rhs)


@unit("unbounded_poisson_solver_native_convolution", props=("C03",), kernels=False, native_check=True,
      configs=[dict(shape=(7, 10)), dict(shape=(8, 5)), dict(shape=(5, 6, 7)), dict(shape=(4, 7, 4))],
      desc="BOUNDED native stand-in for the assumed FFTW contract and lemma M4: real solver vs direct O(N^2) convolution")
def unbounded_poisson_solver_native_convolution(K, shape):
    """real pyfftw plans, real solver object, two consecutive solves on the same object: the result is
    the direct aperiodic convolution with the free-space Green's function times the cell volume."""
    if K.mode == "sym":
        return None
    import numpy as np
    dim = len(shape)
    L = K.real("x_range", pos=True)
    dx = L / shape[-1]
    cls = K.repo(f"{SOLVER_MODS[dim]}:UnboundedPoissonSolverPYFFTW{dim}D")
    kw = {f"grid_size_{a}": shape[i] for i, a in enumerate("zyx"[3 - dim:])}
    # call history: another solver object (other extents, other domain length, single precision) constructed and used first
    other_kw = {k: v + 1 + i for i, (k, v) in enumerate(kw.items())}
    other = cls(x_range=np.float32(0.5 * L), num_threads=1, real_t=np.float32, **other_kw)
    oshape = tuple(other_kw[f"grid_size_{a}"] for a in "zyx"[3 - dim:])
    other.solve(solution_field=np.zeros(oshape, dtype=np.float32), rhs_field=K.rng.normal(size=oshape).astype(np.float32))
    sol = cls(x_range=L, num_threads=2, real_t=np.float64, **kw)
    first = K.field("earlier_rhs", shape)
    scratch = np.zeros(shape)
    sol.solve(solution_field=scratch, rhs_field=first)  # an earlier solve on the same object
    rhs = K.field("rhs_field", shape)
    out = np.zeros(shape)
    sol.solve(solution_field=out, rhs_field=rhs)
    K.unchanged("rhs_field_untouched", rhs)
    idx = np.indices(shape).reshape(dim, -1).T
    c = K.cell(shape)
    tot = 0.0
    for k in idx:
        r = dx * float(np.sqrt(sum((c[a] - k[a]) ** 2 for a in range(dim))))
        if r == 0:
            g = -(2 * np.log(dx / np.sqrt(np.pi)) - 1) / (4 * np.pi) if dim == 2 else 1 / (4 * np.pi * dx)
        else:
            g = -np.log(r) / (2 * np.pi) if dim == 2 else 1 / (4 * np.pi * r)
        tot += g * float(rhs[tuple(k)]) * dx**dim
    K.ensures_eq("solution_is_the_free_space_greens_function_convolution", float(out[c]), tot)
    if dim == 3:
        # the vector solve equals three scalar solves, whatever the output array held before and also when a
        # component of the right-hand side is identically zero
        vrhs = np.stack([rhs, np.zeros(shape), first])
        vout = K.field("earlier_solution", (3,) + tuple(shape))
        sol.vector_field_solve(solution_vector_field=vout, rhs_vector_field=vrhs)
        for comp in range(3):
            ref = np.zeros(shape)
            sol.solve(solution_field=ref, rhs_field=vrhs[comp].copy())
            K.ensures_eq(f"vector_solve_equals_scalar_solve[{comp}]", float(vout[(comp,) + tuple(c)]), float(ref[c]))
