"""C18 (restart helper): real `restart_simulation` against stubs of the directory listing, the three
IO objects and PyElastica's load_state (assumed).  The hidden-state-freedom half of C18 is carried by
the units that run every step / solver / filter with GARBAGE scratch state (tagged C18 there) and by
the IO round trip (C17)."""
import contextlib
import importlib

from svx.contract import unit

MOD = "sopht.utils.restart_sim"


class _P:
    """stand-in for pathlib.Path entries of a directory listing (ordered like paths: by their text)"""

    def __init__(self, name):
        self.name = name
        self.stem = name.rsplit(".", 1)[0]

    def __lt__(self, other):
        return self.name < other.name

    def __eq__(self, other):
        return isinstance(other, _P) and self.name == other.name

    def __hash__(self):
        return hash(self.name)

    def __str__(self):
        return self.name


def listing_stub(names):
    class PathStub:
        patterns = []

        @staticmethod
        def cwd():
            class D:
                @staticmethod
                def glob(pattern):
                    PathStub.patterns.append(pattern)
                    import fnmatch
                    return [_P(n) for n in names if fnmatch.fnmatch(n, pattern)]
            return D()
    return PathStub


class IOStub:
    def __init__(self, time, log, tag):
        self.time, self.log, self.tag = time, log, tag

    def load(self, h5_file_name):
        self.log.append((self.tag, h5_file_name))
        return self.time


@unit("restart_helper", props=("C18",), kernels=False,
      configs=[dict(files=f) for f in ([], [0], [3], [1, 7, 4], [12, 2], [9, 10], [9999, 10000], [5, 123456])],
      assumes=("checkpoint files follow the sopht_<index>.h5 naming convention (precondition)",
               "PyElastica load_state returns the time stored with the body state (assumed; upstream issue cited by the xfail test)"))
def restart_helper(K, files):
    native = K.mode != "sym"  # replay: the REAL directory listing of a scratch directory holding these file names
    m = importlib.import_module(MOD)
    K.functions.append(f"{MOD}:restart_simulation")
    names = [f"sopht_{i:04d}.h5" for i in files] + [f"rod_{i:04d}.h5" for i in files] + ["notes.txt", "sopht_0001_eulerian.xmf"]
    variants = [("times_agree", None), ("times_differ", None)]
    if native and "delta" not in K.model:
        # bounded native runs: ANY disagreement must be refused, also a tiny one late in a run
        variants = [("times_agree", None), ("times_differ", "one_ulp"), ("times_differ", 1e-3), ("times_differ", None)]
    for variant, how in variants:
        log = []
        t = K.real("flow_time")
        delta = K.real("delta", pos=True)
        if how is not None:
            import math
            t = 150.0 + abs(t)
            delta = math.ulp(t) if how == "one_ulp" else how
        rod_t = t if variant == "times_agree" else t + delta
        calls = []

        class EA:
            @staticmethod
            def load_state(sim, directory, verbose):
                calls.append((sim, directory, verbose))
                return rod_t

        saved = (m.Path, m.ea)
        m.Path, m.ea = (m.Path if native else listing_stub(names)), EA
        if native:
            import os
            import tempfile
            cwd0 = os.getcwd()
            tmpdir = tempfile.mkdtemp(prefix="svx_restart_")
            for n in names:
                open(os.path.join(tmpdir, n), "w").close()
            os.chdir(tmpdir)
        sim_obj = object()
        io, rod_io, f_io = IOStub(t, log, "flow"), IOStub(K.real("rod_file_time"), log, "rod"), IOStub(K.real("forcing_file_time"), log, "forcing")
        try:
            if not files:
                K.expect_raises(f"no_checkpoint_is_refused[{variant}]", (FileNotFoundError,), m.restart_simulation,
                                sim_obj, io, rod_io, f_io, "restart_dir")
                K.ensures(f"nothing_loaded_without_checkpoint[{variant}]", log == [] and calls == [])
                continue
            latest = max(files)
            if variant == "times_differ":
                K.expect_raises("differing_flow_and_body_times_are_refused", (ValueError,), m.restart_simulation,
                                sim_obj, io, rod_io, f_io, "restart_dir")
            else:
                ret = m.restart_simulation(sim_obj, io, rod_io, f_io, "restart_dir")
                K.ensures_eq("returns_the_flow_time_of_the_checkpoint", ret, t)
            K.ensures(f"loads_flow_rod_and_forcing_files_of_the_largest_index[{variant}]",
                      log == [("flow", f"sopht_{latest:04d}.h5"), ("rod", f"rod_{latest:04d}.h5"), ("forcing", f"forcing_grid_{latest:04d}.h5")])
            K.ensures(f"body_state_loaded_from_the_restart_directory[{variant}]", calls == [(sim_obj, "restart_dir", True)])
        finally:
            m.Path, m.ea = saved
            if native:
                import shutil
                os.chdir(cwd0)
                shutil.rmtree(tmpdir, ignore_errors=True)
