"""C06 / C07: immersed-boundary interpolation and spreading (real njit closures, numba neutralised).

Markers sit at X = (m + s) * dx + shift per axis with SYMBOLIC integer cell m (grid extents symbolic,
"two cells inside": 1 <= m <= n - 3), symbolic fractional offset s in [0, 1) and symbolic dx > 0.
Lagrangian data are small numpy object arrays of symbols; the Eulerian grid is a symbolic-extent field.
"""
import itertools
from fractions import Fraction as Fr

import numpy as np

from svx.contract import and_, fabs_, ite_, not_, or_, sqrt_, unit

MOD = "sopht.numeric.immersed_boundary_ops.EulerianLagrangianGridCommunicator{d}D"
W = 2  # interp_kernel_width (the only width the weight kernels accept)


def comm(K, dim, name, **kw):
    return K.repo(f"{MOD.format(d=dim)}:{name}_{dim}d")(**kw)


def real_t_of(K):
    if K.mode == "sym":
        from svx.symnp import SymReal
        return SymReal
    return K.real_t


# --- spec: the two 4-point delta functions (Peskin 2002 eq. 6.27; cosine of Peskin 1977) ------------
def phi_cos(r):
    """1/4 (1 + cos(pi r / 2)) for |r| <= 2 (the code evaluates it only on the 4-point support)"""
    from svx.contract import cos_
    from svx.sym import Sym
    import math
    pi = Sym.pi() if isinstance(r, Sym) else math.pi
    return Fr(1, 4) * (1 + cos_(pi / 2 * r)) if isinstance(r, Sym) else 0.25 * (1 + math.cos(math.pi / 2 * r))


def phi_peskin(r):
    a = fabs_(r)
    inner = Fr(1, 8) * (3 - 2 * a + sqrt_(fabs_(1 + 4 * a - 4 * a * a)))
    outer = Fr(1, 8) * (5 - 2 * a - sqrt_(fabs_(-7 + 12 * a - 4 * a * a)))
    return ite_(a < 1, inner, ite_(a < 2, outer, 0))


PHI = {"cosine": phi_cos, "peskin": phi_peskin}


def markers(K, dim, n_mark, shape, robust=False):
    """marker positions X[a, i] = (m[a,i] + s[a,i]) * dx + shift, a = 0 (x) .. dim-1, x <-> LAST array axis"""
    dx = K.real("dx", pos=True)
    shift = dx / 2
    m, s = {}, {}
    for i in range(n_mark):
        for a in range(dim):
            n_a = shape[dim - 1 - a]
            m[a, i] = K.int(f"m{a}_{i}", lo=1, hi=n_a - 3)
            K.requires(and_(m[a, i] >= 1, m[a, i] <= n_a - 3))
            s[a, i] = K.real(f"s{a}_{i}")
            K.requires(and_(s[a, i] >= 0, s[a, i] < 1))
            if K.mode == "sym":
                from svx import ctx
                ctx.branch(s[a, i] == 0)  # marker exactly on a cell centre | strictly inside the cell: both explored
    pos = K.array("lag_positions", (dim, n_mark), init=lambda idx: (m[idx] + s[idx]) * dx + shift)
    return dx, shift, m, s, pos


def run_support_and_weights(K, dim, kernel, n_mark, dx, shift, pos):
    sup = K.array("local_eul_grid_support_of_lag_grid", (dim,) + (2 * W,) * dim + (n_mark,))
    near = K.array("nearest_eul_grid_index_to_lag_grid", (dim, n_mark), kind="int")
    wts = K.array("interp_weights", (2 * W,) * dim + (n_mark,))
    support_k = comm(K, dim, "generate_local_eulerian_grid_support_of_lagrangian_grid_kernel",
                     dx=dx, eul_grid_coord_shift=shift, num_lag_nodes=n_mark, interp_kernel_width=W)
    weights_k = comm(K, dim, f"generate_{kernel}_interpolation_weights_kernel",
                     dx=dx, interp_kernel_width=W, real_t=real_t_of(K))
    K.run(support_k, sup, near, pos)
    sup_after_support = sup.copy()
    K.run(weights_k, wts, sup)
    return sup_after_support, near, wts


def window(dim):
    """window positions k = (k_z, k_y, k_x) in array order and their offsets (-1..2) per axis"""
    return list(itertools.product(range(2 * W), repeat=dim))


@unit("interp_weights", props=("C06",), extra_props=("C07",), kernels=False,
      configs=[dict(dim=d, kernel=k, n_mark=n) for d in (2, 3) for k in ("cosine", "peskin") for n in (1, 2)],
      assumes=("sqrt axiomatised by t >= 0, t^2 = arg on arg >= 0", "M6 cos facts (range, quarter-turn values) for the cosine kernel"))
def interp_weights(K, dim, kernel, n_mark):
    shape = tuple(K.ext(n, lo=4) for n in ("nz", "ny", "nx")[3 - dim:])
    dx, shift, m, s, pos = markers(K, dim, n_mark, shape)
    sup, near, wts = run_support_and_weights(K, dim, kernel, n_mark, dx, shift, pos)
    K.array_unchanged("frame_positions", pos)
    phi = PHI[kernel]
    for i in range(n_mark):
        for a in range(dim):
            K.ensures_eq(f"nearest_index_is_containing_cell[{a},{i}]", K.aval(near, (a, i)), m[a, i])
        total, moment = 0, [0] * dim
        for k in window(dim):
            # component a (x first) varies along the LAST window axis: offset of axis a is k[dim-1-a] - 1
            off = [k[dim - 1 - a] - (W - 1) for a in range(dim)]
            r = [off[a] - s[a, i] for a in range(dim)]  # signed distance / dx
            for a in range(dim):
                K.ensures_eq(f"signed_distance[{a},{k},{i}]", K.aval(sup, (a,) + k + (i,)), r[a] * dx)
            w = K.aval(wts, k + (i,))
            expect = 1
            for a in range(dim):
                expect = expect * phi(r[a]) / dx
            K.ensures_eq(f"weight_is_product_of_delta_functions[{k},{i}]", w, expect)
            # non-negativity: each one-dimensional factor is >= 0 (below); the weight is their product / dx^dim
            for a in range(dim):
                K.ensures(f"delta_function_nonnegative[{a},{k},{i}]", phi(r[a]) >= 0)
            total = total + w
            for a in range(dim):
                moment[a] = moment[a] + r[a] * w
        # these two clauses also carry C07's conservation corollary (grid integral of a spread force = marker force,
        # Peskin: first moment preserved): the spreading postcondition is stated for arbitrary weights, the REAL
        # weights enter here
        K.ensures_eq(f"partition_of_unity[{i}]", total * dx**dim, 1, props=("C06", "C07"))
        if kernel == "peskin":
            for a in range(dim):
                K.ensures_eq(f"first_moment_vanishes[{a},{i}]", moment[a], 0, props=("C06", "C07"))
    p = [K.real(f"factor{a}", nonneg=True) for a in range(dim)]
    prod = 1
    for a in range(dim):
        prod = prod * p[a] / dx
    K.ensures("lemma_product_of_nonnegative_factors_is_nonnegative", prod >= 0)
    # markers are independent: outputs of marker 0 mention no input of marker 1 (proved by the closed forms above)


def _win_cells(dim, m, i):
    """grid cells (array order) of marker i's window with their window position k"""
    out = []
    for k in window(dim):
        cell = tuple(m[dim - 1 - ax, i] - (W - 1) + k[ax] for ax in range(dim))  # array axis ax <-> component dim-1-ax
        out.append((k, cell))
    return out


@unit("interpolation_closed_form", props=("C06", "C07"), kernels=False,
      configs=[dict(dim=d, n_comp=c) for d in (2, 3) for c in (1, "vec")])
def interpolation_closed_form(K, dim, n_comp):
    """Eulerian -> Lagrangian: lag[.., i] = dx^dim * sum over the 4^dim window of eul * weights[.., i], for
    ARBITRARY weight arrays and nearest indices 'two cells inside'; inputs untouched."""
    nc = dim if n_comp == "vec" else 1
    n_mark = 2
    shape = tuple(K.ext(n, lo=4) for n in ("nz", "ny", "nx")[3 - dim:])
    dx = K.real("dx", pos=True)
    m = {(a, i): K.int(f"m{a}_{i}", lo=1, hi=shape[dim - 1 - a] - 3) for a in range(dim) for i in range(n_mark)}
    near = K.array("nearest_eul_grid_index_to_lag_grid", (dim, n_mark), kind="int", init=lambda idx: m[idx])
    wts = K.array("interp_weights", (2 * W,) * dim + (n_mark,))
    eul = K.field("eul_grid_field", ((nc,) if nc > 1 else ()) + shape)
    lag = K.array("lag_grid_field", ((nc,) if nc > 1 else ()) + (n_mark,))
    k = comm(K, dim, "generate_eulerian_to_lagrangian_grid_interpolation_kernel",
             dx=dx, num_lag_nodes=n_mark, interp_kernel_width=W, n_components=nc)
    K.run(k, lag, eul, wts, near)
    for i in range(n_mark):
        for comp in (range(nc) if nc > 1 else [None]):
            pre = (comp,) if comp is not None else ()
            expect = sum(K.old(eul, pre + cell) * K.aold(wts, kk + (i,)) for kk, cell in _win_cells(dim, m, i)) * dx**dim
            K.ensures_eq(f"lag_is_dxd_times_window_sum[{comp},{i}]", K.aval(lag, pre + (i,)), expect)
    K.unchanged("frame_eul_field", eul)
    K.array_unchanged("frame_weights", wts)
    K.array_unchanged("frame_nearest", near)


@unit("spreading_postcondition", props=("C07",), kernels=False,
      configs=[dict(dim=d, n_comp=c, placement=p) for d in (2, 3) for c in (1, "vec") for p in ("free", "same_cell", "adjacent")])
def spreading_postcondition(K, dim, n_comp, placement="free"):
    """Lagrangian -> Eulerian, strongest postcondition over the WHOLE grid: every cell c ends with
    old[c] + sum_i sum_k [c is window cell k of marker i] * lag[.., i] * weights[k, i]  (accumulation into
    arbitrary prior content; overlapping or identical supports add up; all other cells and all inputs
    untouched), for arbitrary weight arrays: the same window and the same weights as interpolation."""
    nc = dim if n_comp == "vec" else 1
    n_mark = 2
    shape = tuple(K.ext(n, lo=4) for n in ("nz", "ny", "nx")[3 - dim:])
    m = {(a, i): K.int(f"m{a}_{i}", lo=1, hi=shape[dim - 1 - a] - 3) for a in range(dim) for i in range(n_mark)}
    # "free" covers every relative placement symbolically; the two special placements (markers clustered in one
    # cell / in neighbouring cells) are spelled out so that bounded native sampling also exercises them
    if placement != "free":
        for a in range(dim):
            if K.mode == "sym":
                K.requires(m[a, 1] == m[a, 0] + (1 if (placement == "adjacent" and a == 0) else 0))
            else:
                m[a, 1] = min(m[a, 0] + (1 if (placement == "adjacent" and a == 0) else 0), int(shape[dim - 1 - a]) - 3)
    near = K.array("nearest_eul_grid_index_to_lag_grid", (dim, n_mark), kind="int", init=lambda idx: m[idx])
    wts = K.array("interp_weights", (2 * W,) * dim + (n_mark,))
    eul = K.field("eul_grid_field", ((nc,) if nc > 1 else ()) + shape)
    lag = K.array("lag_grid_field", ((nc,) if nc > 1 else ()) + (n_mark,))
    k = comm(K, dim, "generate_lagrangian_to_eulerian_grid_interpolation_kernel",
             num_lag_nodes=n_mark, interp_kernel_width=W, n_components=nc)
    K.run(k, eul, lag, wts, near)
    c = K.cell(shape)
    if K.mode != "sym":  # sample a cell inside marker 0's window
        c = tuple(int(m[dim - 1 - ax, 0]) - 1 + int(K.rng.integers(0, 4)) for ax in range(dim))
    for comp in (range(nc) if nc > 1 else [None]):
        pre = (comp,) if comp is not None else ()
        add = 0
        for i in range(n_mark):
            for kk, cell in _win_cells(dim, m, i):
                hit = and_(*[c[ax] == cell[ax] for ax in range(dim)])
                add = add + ite_(hit, K.aold(lag, pre + (i,)) * K.aold(wts, kk + (i,)), 0)
        K.ensures_eq(f"every_cell_accumulates_exactly_its_window_contributions[{comp}]",
                     K.value(eul, pre + c), K.old(eul, pre + c) + add)
    K.array_unchanged("frame_lag_field", lag)
    K.array_unchanged("frame_weights", wts)
    K.array_unchanged("frame_nearest", near)


@unit("interpolation_exactness", props=("C06",), kernels=False,
      configs=[dict(dim=d, kernel=k) for d in (2, 3) for k in ("cosine", "peskin")])
def interpolation_exactness(K, dim, kernel):
    """constants (both kernels) and affine fields -- in particular the simulator's own cell-centre
    coordinate field -- (Peskin) are interpolated exactly: real support + weight + interpolation closures."""
    n_mark = 1
    shape = tuple(K.ext(n, lo=4) for n in ("nz", "ny", "nx")[3 - dim:])
    dx, shift, m, s, pos = markers(K, dim, n_mark, shape)
    sup, near, wts = run_support_and_weights(K, dim, kernel, n_mark, dx, shift, pos)
    alpha = K.real("alpha")
    beta = [K.real(f"beta{a}") for a in range(dim)] if kernel == "peskin" else [0] * dim

    def affine(idx):  # idx in array order; physical coordinate of component a is (idx[dim-1-a] + 1/2) dx
        return alpha + sum(beta[a] * (idx[dim - 1 - a] + Fr(1, 2)) * dx for a in range(dim))

    eul = K.field("eul_grid_field", shape, init=affine)
    lag = K.array("lag_grid_field", (n_mark,))
    k = comm(K, dim, "generate_eulerian_to_lagrangian_grid_interpolation_kernel",
             dx=dx, num_lag_nodes=n_mark, interp_kernel_width=W, n_components=1)
    K.run(k, lag, eul, wts, near)
    X = [K.aold(pos, (a, 0)) for a in range(dim)]
    K.ensures_eq("interpolated_value_is_exact_at_the_marker", K.aval(lag, (0,)),
                 alpha + sum(beta[a] * X[a] for a in range(dim)))


# =============================================================================================
# the communicator CLASS: which generator, with which parameters, ends up behind which attribute
# =============================================================================================
class _GeneratedKernel:
    """contract stub of a generated kernel: remembers the generator and the parameters it was generated with"""

    def __init__(self, generator, kwargs):
        self.generator, self.kwargs = generator, kwargs


@unit("communicator_class_wiring", props=("C06", "C07"), kernels=False,
      configs=[dict(dim=d, kernel=k, n_components=c) for d in (2, 3) for k in ("cosine", "peskin") for c in (1, "dim")],
      assumes=("the generator functions are used through their contracts (proved in interp_weights, interpolation_closed_form, "
               "spreading_*): the class is checked for handing each generator THIS instance's parameters",
               "history bounded: two earlier communicators (another spacing and shift; another precision) constructed in the same process"))
def communicator_class_wiring(K, dim, kernel, n_components):
    """EulerianLagrangianGridCommunicator{2,3}D.__init__, called after other communicators with different parameters were
    constructed in the same process: every kernel attribute of the new object was generated by the right generator with
    the new object's own dx / shift / marker count / width / component count / precision."""
    import importlib
    mod = importlib.import_module(MOD.format(d=dim))
    nc = dim if n_components == "dim" else 1
    gens = [n for n in dir(mod) if n.startswith("generate_") and n.endswith(f"_{dim}d")]
    saved = {n: getattr(mod, n) for n in gens}

    def recorder(name):
        def gen(*a, **kw):
            if a:
                raise NotImplementedError(f"communicator wiring stub: positional arguments to {name}")
            return _GeneratedKernel(name, kw)
        gen.__name__ = gen.__qualname__ = name
        return gen

    cls = K.repo(f"{MOD.format(d=dim)}:EulerianLagrangianGridCommunicator{dim}D")
    n_mark = 5
    dx, shift = 0.125, 0.0625
    try:
        for n in gens:
            setattr(mod, n, recorder(n))
        # call history: communicators of other bodies / other grids made earlier in the same process
        cls(dx=0.25, eul_grid_coord_shift=0.125, num_lag_nodes=n_mark, interp_kernel_width=W, real_t=np.float64,
            n_components=nc, interp_kernel_type=kernel)
        cls(dx=dx, eul_grid_coord_shift=0.0, num_lag_nodes=n_mark, interp_kernel_width=W, real_t=np.float32,
            n_components=nc, interp_kernel_type=kernel)
        obj = cls(dx=dx, eul_grid_coord_shift=shift, num_lag_nodes=n_mark, interp_kernel_width=W, real_t=np.float64,
                  n_components=nc, interp_kernel_type=kernel)
    finally:
        for n, f in saved.items():
            setattr(mod, n, f)
    expect = {
        "local_eulerian_grid_support_of_lagrangian_grid_kernel": (
            f"generate_local_eulerian_grid_support_of_lagrangian_grid_kernel_{dim}d",
            dict(dx=dx, eul_grid_coord_shift=shift, num_lag_nodes=n_mark, interp_kernel_width=W)),
        "eulerian_to_lagrangian_grid_interpolation_kernel": (
            f"generate_eulerian_to_lagrangian_grid_interpolation_kernel_{dim}d",
            dict(dx=dx, num_lag_nodes=n_mark, interp_kernel_width=W, n_components=nc)),
        "lagrangian_to_eulerian_grid_interpolation_kernel": (
            f"generate_lagrangian_to_eulerian_grid_interpolation_kernel_{dim}d",
            dict(num_lag_nodes=n_mark, interp_kernel_width=W, n_components=nc)),
        "interpolation_weights_kernel": (
            f"generate_{kernel}_interpolation_weights_kernel_{dim}d", dict(dx=dx, interp_kernel_width=W, real_t=np.float64)),
    }
    for attr, (gname, kw) in expect.items():
        got = getattr(obj, attr, None)
        ok = isinstance(got, _GeneratedKernel) and got.generator == gname and all(
            k in got.kwargs and (got.kwargs[k] is v if isinstance(v, type) else got.kwargs[k] == v) for k, v in kw.items())
        K.ensures(f"{attr}_generated_for_this_instance", ok,
                  note="" if ok else f"got {getattr(got, 'generator', got)} with {getattr(got, 'kwargs', None)}; expected {gname} with {kw}")
    if K.mode != "sym":
        # the same history on the compiled kernels (bounded native run): the LAST communicator interpolates the constant
        # field 1 to exactly 1 at markers two cells inside, whatever was constructed before it
        shape = (12,) * dim
        comms = [cls(dx=0.25, eul_grid_coord_shift=0.125, num_lag_nodes=n_mark, interp_kernel_width=W, real_t=np.float64,
                     n_components=nc, interp_kernel_type=kernel),
                 cls(dx=dx, eul_grid_coord_shift=shift, num_lag_nodes=n_mark, interp_kernel_width=W, real_t=np.float64,
                     n_components=nc, interp_kernel_type=kernel)]
        c = comms[-1]
        pos = (2.0 + K.rng.uniform(0, shape[0] - 5, size=(dim, n_mark))) * dx + shift
        sup = np.zeros((dim,) + (2 * W,) * dim + (n_mark,))
        near = np.zeros((dim, n_mark), dtype=int)
        wts = np.zeros((2 * W,) * dim + (n_mark,))
        c.local_eulerian_grid_support_of_lagrangian_grid_kernel(sup, near, pos)
        c.interpolation_weights_kernel(wts, sup)
        eul = np.ones(((nc,) if nc > 1 else ()) + shape)
        lag = np.zeros(((nc,) if nc > 1 else ()) + (n_mark,))
        c.eulerian_to_lagrangian_grid_interpolation_kernel(lag, eul, wts, near)
        for idx in np.ndindex(*lag.shape):
            K.ensures_eq(f"constant_field_interpolates_to_itself{list(idx)}", float(lag[idx]), 1.0, props=("C06",))


@unit("interp_weights_native_near_cell_centres", props=("C06",), kernels=False, native_check=True,
      configs=[dict(dim=d, kernel=k, precision=p) for d in (2, 3) for k in ("cosine", "peskin") for p in ("double", "single")],
      desc="BOUNDED native stand-in for the rounding part of C06 (the symbolic units use exact arithmetic): markers on cell "
           "centres and cell faces and one ulp either side, in both precisions")
def interp_weights_native_near_cell_centres(K, dim, kernel, precision):
    """real communicator object on the compiled kernels; marker coordinates are cell centres (m + 1/2) dx and cell faces
    m dx as the floating-point numbers the caller would compute, and their two floating-point neighbours."""
    if K.mode == "sym":
        return None
    real_t = np.float64 if precision == "double" else np.float32
    tol = 1e-11 if precision == "double" else 2e-5
    K.tol = tol
    n = 16
    dx = real_t(K.rng.choice([1.0 / 16, 0.1, 1.0 / 3, 0.7]))
    shift = real_t(dx / 2)
    cells = [int(c) for c in K.rng.integers(2, n - 3, size=4)]
    base = []
    for m in cells:
        centre = real_t(real_t(m) * dx + shift)
        face = real_t(real_t(m) * dx)
        for x in (centre, face):
            base += [x, np.nextafter(x, real_t(np.inf)), np.nextafter(x, real_t(-np.inf))]
    n_mark = len(base)
    pos = np.zeros((dim, n_mark), dtype=real_t)
    for a in range(dim):
        pos[a] = np.roll(np.array(base, dtype=real_t), 5 * a)  # different near-degenerate combinations per axis
    cls = K.repo(f"{MOD.format(d=dim)}:EulerianLagrangianGridCommunicator{dim}D")
    c = cls(dx=dx, eul_grid_coord_shift=shift, num_lag_nodes=n_mark, interp_kernel_width=W, real_t=real_t,
            n_components=1, interp_kernel_type=kernel)
    sup = np.zeros((dim,) + (2 * W,) * dim + (n_mark,), dtype=real_t)
    near = np.zeros((dim, n_mark), dtype=int)
    wts = np.zeros((2 * W,) * dim + (n_mark,), dtype=real_t)
    c.local_eulerian_grid_support_of_lagrangian_grid_kernel(sup, near, pos)
    work = sup.copy()  # the weight kernels use their second argument as work space
    c.interpolation_weights_kernel(wts, work)
    vol = float(dx) ** dim
    axes = tuple(range(dim))
    K.ensures("weights_nonnegative_up_to_rounding", bool(np.all(wts.astype(np.float64) * vol >= -tol)))
    total = wts.astype(np.float64).sum(axis=axes) * vol
    K.ensures_eq("partition_of_unity_up_to_rounding", float(np.abs(total - 1.0).max()), 0.0)
    # the four-point support really is the four cells nearest to the marker: |distance| <= 2 dx (+ rounding) everywhere
    K.ensures("support_within_two_cells_up_to_rounding", bool(np.all(np.abs(sup.astype(np.float64)) <= 2.0 * float(dx) * (1 + 1e-6))))
    if kernel == "peskin":
        for a in range(dim):
            mom = (wts.astype(np.float64) * sup[a].astype(np.float64)).sum(axis=axes) * vol / float(dx)
            K.ensures_eq(f"first_moment_vanishes_up_to_rounding[{a}]", float(np.abs(mom).max()), 0.0)
    # interpolating the constant 1 and (Peskin) the simulator-style cell-centre coordinate field
    shape = (n,) * dim
    one = np.ones(shape, dtype=real_t)
    lag = np.zeros((n_mark,), dtype=real_t)
    c.eulerian_to_lagrangian_grid_interpolation_kernel(lag, one, wts, near)
    K.ensures_eq("constant_field_interpolates_to_itself_up_to_rounding", float(np.abs(lag.astype(np.float64) - 1.0).max()), 0.0)
    if kernel == "peskin":
        for a in range(dim):
            idx = np.indices(shape)[dim - 1 - a]
            coord = ((idx + 0.5) * float(dx)).astype(real_t)
            c.eulerian_to_lagrangian_grid_interpolation_kernel(lag, coord, wts, near)
            err = np.abs(lag.astype(np.float64) - pos[a].astype(np.float64)).max() / (n * float(dx))
            K.ensures_eq(f"coordinate_field_interpolates_to_the_marker_position_up_to_rounding[{a}]", float(err), 0.0)
