"""C15: the parts that are not generated automatically at kernel calls.

* every pystencils kernel created by any unit writes each field at the centre cell only
  (checked in svx.kernel when the assignment list is received; a violation is an obligation failure);
* Lagrangian -> Eulerian spreading ACCUMULATES, so it must run in a fixed serial marker order: the
  real generator functions are inspected (AST of the source in /repo): no `prange`, no `parallel=True`
  anywhere in the generator, and the marker loop is a plain ascending `range(num_lag_nodes)`.
"""
import ast
import inspect
import textwrap

from svx.contract import unit

MOD = "sopht.numeric.immersed_boundary_ops.EulerianLagrangianGridCommunicator{d}D"


@unit("spreading_is_serial", props=("C15",), configs=[dict(dim=2), dict(dim=3)], kernels=False)
def spreading_is_serial(K, dim):
    gen = K.repo(f"{MOD.format(d=dim)}:generate_lagrangian_to_eulerian_grid_interpolation_kernel_{dim}d")
    src = textwrap.dedent(inspect.getsource(gen))
    tree = ast.parse(src)
    names = {n.id for n in ast.walk(tree) if isinstance(n, ast.Name)} | {n.attr for n in ast.walk(tree) if isinstance(n, ast.Attribute)}
    K.ensures("no_prange_in_spreading_generator", "prange" not in names)
    par = [kw for n in ast.walk(tree) if isinstance(n, ast.Call) for kw in n.keywords
           if kw.arg == "parallel" and not (isinstance(kw.value, ast.Constant) and kw.value.value is False)]
    K.ensures("no_parallel_compilation_of_spreading", not par)
    loops = [n for n in ast.walk(tree) if isinstance(n, ast.For)]
    K.ensures("spreading_has_marker_loops", len(loops) >= 2)

    def plain(loop):
        it = loop.iter
        if not (isinstance(it, ast.Call) and isinstance(it.func, ast.Name) and it.func.id == "range"):
            return False
        args = it.args
        if len(args) == 1:
            return isinstance(args[0], ast.Name) and args[0].id == "num_lag_nodes"
        if len(args) == 2:
            return isinstance(args[0], ast.Constant) and args[0].value == 0 and isinstance(args[1], ast.Name) and args[1].id == "num_lag_nodes"
        return False

    K.ensures("marker_loops_are_plain_ascending_ranges", all(plain(l) for l in loops))
    # nothing else in the module re-wraps the generators with a parallel compilation
    import sys
    modsrc = inspect.getsource(sys.modules[MOD.format(d=dim)])
    K.ensures("module_never_requests_parallel_numba", "parallel=True" not in modsrc.replace(" ", "") and "prange" not in modsrc)


@unit("communicator_kernels_uniform_in_marker_count", props=("C06", "C07", "C15"), configs=[dict(dim=2), dict(dim=3)], kernels=False,
      assumes=("a closure whose code object is the same for every marker count N treats markers uniformly: its per-marker "
               "contracts (proved for N = 1, 2 with symbolic positions) extend to any N by the marker-loop / broadcasting structure",))
def communicator_kernels_uniform_in_marker_count(K, dim):
    """the real generator functions return THE SAME code for every marker count (no dispatch on N:
    no alternative kernels for 'many markers', no parallel variants), so what is proved for one and
    two markers is what runs for thousands."""
    import sys
    mod = MOD.format(d=dim)
    from svx.symnp import SymReal64
    gens = {
        "local_eulerian_grid_support_of_lagrangian_grid_kernel": dict(dx=0.1, eul_grid_coord_shift=0.05, interp_kernel_width=2),
        "eulerian_to_lagrangian_grid_interpolation_kernel": dict(dx=0.1, interp_kernel_width=2),
        "lagrangian_to_eulerian_grid_interpolation_kernel": dict(interp_kernel_width=2),
    }
    counts = (1, 2, 3, 17, 500, 501, 1024, 4097)
    for gname, kw in gens.items():
        for ncomp in ((None,) if gname.startswith("local") else (1, dim)):
            codes = set()
            for n in counts:
                args = dict(kw, num_lag_nodes=n)
                if ncomp is not None:
                    args["n_components"] = ncomp
                fn = K.repo(f"{mod}:generate_{gname}_{dim}d")(**args)
                code = fn.__code__
                codes.add((code.co_code, code.co_names, tuple(repr(c) for c in code.co_consts), code.co_varnames, fn.__name__))
            K.ensures(f"{gname}[n_components={ncomp}]_is_the_same_code_for_every_marker_count", len(codes) == 1,
                      note=f"marker counts {counts}")


def _parallel_reductions(src):
    """(function, line, what) for every loop over numba.prange whose body accumulates into a scalar, or into an array
    element whose index does not involve the loop variable: such a reduction is combined in thread order."""
    out = []
    tree = ast.parse(src)
    for fn in [n for n in ast.walk(tree) if isinstance(n, (ast.FunctionDef, ast.AsyncFunctionDef))]:
        for loop in [n for n in ast.walk(fn) if isinstance(n, ast.For)]:
            it = loop.iter
            callee = it.func if isinstance(it, ast.Call) else None
            pname = callee.id if isinstance(callee, ast.Name) else (callee.attr if isinstance(callee, ast.Attribute) else None)
            if pname != "prange":
                continue
            loop_vars = {n.id for n in ast.walk(loop.target) if isinstance(n, ast.Name)}
            for node in ast.walk(loop):
                if not isinstance(node, ast.AugAssign):
                    continue
                tgt = node.target
                if isinstance(tgt, ast.Name):
                    out.append((fn.name, node.lineno, f"scalar reduction into `{tgt.id}`"))
                elif isinstance(tgt, ast.Subscript):
                    idx_names = {n.id for n in ast.walk(tgt.slice) if isinstance(n, ast.Name)}
                    inner_vars = {n.id for l2 in ast.walk(loop) if isinstance(l2, ast.For) and l2 is not loop
                                  for n in ast.walk(l2.target) if isinstance(n, ast.Name)}
                    if not (idx_names & loop_vars) and not (idx_names & inner_vars and False):
                        out.append((fn.name, node.lineno, "accumulation into an element not indexed by the parallel loop variable"))
    return out


@unit("no_thread_order_reductions_in_numba_code", props=("C15",), kernels=False,
      configs=[dict(package=p) for p in ("numeric", "simulator", "utils")],
      assumes=("syntactic criterion on the source text in /repo: a loop over numba.prange is schedule independent when it does not "
               "accumulate into a scalar or into elements not indexed by its loop variable (element-wise parallel maps are accepted)",))
def no_thread_order_reductions_in_numba_code(K, package):
    """every hand-written numba function of the package (coupling routines, forcing grids, communicators, utilities):
    no reduction over a parallel loop, whose floating-point result would depend on the number of threads."""
    import os
    import sopht
    root = os.path.join(os.path.dirname(sopht.__file__), package)
    K.functions.append(f"sopht.{package}")
    found, nfiles = [], 0
    for d, _dirs, files in sorted(os.walk(root)):
        for f in sorted(files):
            if f.endswith(".py"):
                nfiles += 1
                path = os.path.join(d, f)
                for fn, line, what in _parallel_reductions(open(path).read()):
                    found.append(f"{os.path.relpath(path, root)}:{line} in {fn}: {what}")
    K.ensures("package_has_source_files", nfiles > 0)
    K.ensures("no_reduction_over_a_parallel_numba_loop", not found, note="; ".join(found)[:600])


_NUMERIC_BUILTINS = {"int", "float", "max", "min", "abs", "round", "range", "bool", "len", "divmod", "pow", "sum"}


def _thread_count_computations(src):
    """uses of `num_threads` that COMPUTE with the thread count (arithmetic, comparison, branching, numeric builtins,
    indexing, loop bounds) instead of handing it on to a kernel configuration / a sub-generator / an object"""
    tree = ast.parse(src)
    parents = {}
    for node in ast.walk(tree):
        for ch in ast.iter_child_nodes(node):
            parents[ch] = node
    out = []
    for node in ast.walk(tree):
        is_nt = (isinstance(node, ast.Name) and node.id == "num_threads") or (isinstance(node, ast.Attribute) and node.attr == "num_threads")
        if not is_nt or not isinstance(getattr(node, "ctx", None), ast.Load):
            continue
        if isinstance(node, ast.Name) and isinstance(parents.get(node), ast.Attribute):
            continue
        par = parents.get(node)
        ok = False
        if isinstance(par, ast.keyword):
            ok = True  # handed on by keyword
        elif isinstance(par, ast.Call) and node in par.args:
            f = par.func
            fname = f.id if isinstance(f, ast.Name) else (f.attr if isinstance(f, ast.Attribute) else "")
            ok = fname not in _NUMERIC_BUILTINS
        elif isinstance(par, (ast.Assign, ast.AnnAssign)) and par.value is node:
            ok = True  # stored (self.num_threads = num_threads)
        elif isinstance(par, (ast.FormattedValue, ast.JoinedStr)):
            ok = True  # printed
        elif isinstance(par, ast.arguments):
            ok = True
        if not ok:
            out.append((node.lineno, type(par).__name__))
    return out


@unit("thread_count_only_reaches_kernel_configurations", props=("C15",), kernels=False,
      configs=[dict(package=p) for p in ("numeric", "simulator", "utils")],
      assumes=("syntactic criterion on the source text in /repo: `num_threads` is only handed on (call argument that is not a numeric "
               "builtin, keyword argument, attribute assignment, formatted output), never computed with; pystencils / FFTW honour "
               "schedule independence of what they are configured with (A3)",))
def thread_count_only_reaches_kernel_configurations(K, package):
    """no wrapper, simulator or solver derives block sizes, loop bounds, branches or anything else from the thread
    count: the only consumers are the kernel configuration, the FFT plans and sub-generators."""
    import os
    import sopht
    root = os.path.join(os.path.dirname(sopht.__file__), package)
    K.functions.append(f"sopht.{package}")
    found, nfiles = [], 0
    for d, _dirs, files in sorted(os.walk(root)):
        for f in sorted(files):
            if f.endswith(".py"):
                nfiles += 1
                path = os.path.join(d, f)
                for line, how in _thread_count_computations(open(path).read()):
                    found.append(f"{os.path.relpath(path, root)}:{line} ({how})")
    K.ensures("package_has_source_files", nfiles > 0)
    K.ensures("thread_count_is_never_computed_with", not found, note="; ".join(found)[:600])
