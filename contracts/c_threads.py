"""C15: the parts that are not generated automatically at kernel calls.

* every pystencils kernel created by any unit writes each field at the centre cell only
  (checked in svx.kernel when the assignment list is received; a violation is an obligation failure);
* Lagrangian -> Eulerian spreading ACCUMULATES, so it must run in a fixed serial marker order: the
  real generator functions are inspected (AST of the source in /repo): no `prange`, no `parallel=True`
  anywhere in the generator, and the marker loop is a plain ascending `range(num_lag_nodes)`.
"""
import ast
import inspect
import textwrap

from svx.contract import unit

MOD = "sopht.numeric.immersed_boundary_ops.EulerianLagrangianGridCommunicator{d}D"


@unit("spreading_is_serial", props=("C15",), configs=[dict(dim=2), dict(dim=3)], kernels=False)
def spreading_is_serial(K, dim):
    gen = K.repo(f"{MOD.format(d=dim)}:generate_lagrangian_to_eulerian_grid_interpolation_kernel_{dim}d")
    src = textwrap.dedent(inspect.getsource(gen))
    tree = ast.parse(src)
    names = {n.id for n in ast.walk(tree) if isinstance(n, ast.Name)} | {n.attr for n in ast.walk(tree) if isinstance(n, ast.Attribute)}
    K.ensures("no_prange_in_spreading_generator", "prange" not in names)
    par = [kw for n in ast.walk(tree) if isinstance(n, ast.Call) for kw in n.keywords
           if kw.arg == "parallel" and not (isinstance(kw.value, ast.Constant) and kw.value.value is False)]
    K.ensures("no_parallel_compilation_of_spreading", not par)
    loops = [n for n in ast.walk(tree) if isinstance(n, ast.For)]
    K.ensures("spreading_has_marker_loops", len(loops) >= 2)

    def plain(loop):
        it = loop.iter
        if not (isinstance(it, ast.Call) and isinstance(it.func, ast.Name) and it.func.id == "range"):
            return False
        args = it.args
        if len(args) == 1:
            return isinstance(args[0], ast.Name) and args[0].id == "num_lag_nodes"
        if len(args) == 2:
            return isinstance(args[0], ast.Constant) and args[0].value == 0 and isinstance(args[1], ast.Name) and args[1].id == "num_lag_nodes"
        return False

    K.ensures("marker_loops_are_plain_ascending_ranges", all(plain(l) for l in loops))
    # nothing else in the module re-wraps the generators with a parallel compilation
    import sys
    modsrc = inspect.getsource(sys.modules[MOD.format(d=dim)])
    K.ensures("module_never_requests_parallel_numba", "parallel=True" not in modsrc.replace(" ", "") and "prange" not in modsrc)


@unit("communicator_kernels_uniform_in_marker_count", props=("C06", "C07", "C15"), configs=[dict(dim=2), dict(dim=3)], kernels=False,
      assumes=("a closure whose code object is the same for every marker count N treats markers uniformly: its per-marker "
               "contracts (proved for N = 1, 2 with symbolic positions) extend to any N by the marker-loop / broadcasting structure",))
def communicator_kernels_uniform_in_marker_count(K, dim):
    """the real generator functions return THE SAME code for every marker count (no dispatch on N:
    no alternative kernels for 'many markers', no parallel variants), so what is proved for one and
    two markers is what runs for thousands."""
    import sys
    mod = MOD.format(d=dim)
    from svx.symnp import SymReal64
    gens = {
        "local_eulerian_grid_support_of_lagrangian_grid_kernel": dict(dx=0.1, eul_grid_coord_shift=0.05, interp_kernel_width=2),
        "eulerian_to_lagrangian_grid_interpolation_kernel": dict(dx=0.1, interp_kernel_width=2),
        "lagrangian_to_eulerian_grid_interpolation_kernel": dict(interp_kernel_width=2),
    }
    counts = (1, 2, 3, 17, 500, 501, 1024, 4097)
    for gname, kw in gens.items():
        for ncomp in ((None,) if gname.startswith("local") else (1, dim)):
            codes = set()
            for n in counts:
                args = dict(kw, num_lag_nodes=n)
                if ncomp is not None:
                    args["n_components"] = ncomp
                fn = K.repo(f"{mod}:generate_{gname}_{dim}d")(**args)
                code = fn.__code__
                codes.add((code.co_code, code.co_names, tuple(repr(c) for c in code.co_consts), code.co_varnames, fn.__name__))
            K.ensures(f"{gname}[n_components={ncomp}]_is_the_same_code_for_every_marker_count", len(codes) == 1,
                      note=f"marker counts {counts}")
