#!/bin/bash
# tools/eval_final.sh [stream]: evaluates every seeded change with the committed machinery (two streams: a / b)
cd /verif
export SVX_UNIT_LIMIT_S=600
A=(
"C01_m1 C01" "C03_m1 C03" "C03_m3 C03" "C04_m1 C04" "C05_m1 C05 C01" "C06_m1 C06" "C06_m3 C06" "C07_m1 C07" "C07_m3 C07"
"C08_m1 C08" "C08_m3 C08" "C09_m1 C09" "C09_m3 C09" "C10_m1 C10" "C10_m3 C10" "C11_m1 C11" "C11_m3 C11" "C12_m1 C12"
"C13_m1 C13" "C14_m1 C14 C01" "C14_m3 C14 C03" "C15_m1 C15" "C16_m1 C16" "C16_m3 C16" "C17_m1 C17" "C17_m3 C17"
"C18_m1 C18 C03" "C18_m3 C18" "C18_m5 C18" "C19_m1 C19" "C19_m3 C19" "C20_m1 C20"
"C01_m3 C01" "C04_m3 C04" "C05_m3 C05 C01" "C12_m3 C12" "C13_m3 C13" "C15_m3 C15 C13" "C20_m3 C20"
)
B=(
"C01_m2 C01" "C03_m2 C03" "C03_m4 C03" "C04_m2 C04 C19" "C05_m2 C05" "C06_m2 C06" "C06_m4 C06" "C07_m2 C07" "C07_m4 C07"
"C08_m2 C08" "C08_m4 C08" "C09_m2 C09" "C09_m4 C09" "C10_m2 C10" "C10_m4 C10" "C11_m2 C11" "C11_m4 C11" "C12_m2 C12"
"C13_m2 C13" "C14_m2 C14 C03" "C14_m4 C14 C11" "C15_m2 C15" "C16_m2 C16" "C16_m4 C16" "C17_m2 C17" "C17_m4 C17"
"C18_m2 C18" "C18_m4 C18" "C19_m2 C19" "C19_m4 C19" "C20_m2 C20"
"C01_m4 C01" "C04_m4 C04" "C05_m4 C05" "C12_m4 C12" "C13_m4 C13 C19" "C15_m4 C15" "C20_m4 C20"
)
if [ "${1:-a}" = "a" ]; then L=("${A[@]}"); else L=("${B[@]}"); fi
for e in "${L[@]}"; do
  tools/eval_mutant.sh $e > /dev/null 2>&1
  n=${e%% *}
  echo "$n $(grep -E '^check_.*_exit' seeded/$n/eval.log | tr '\n' ' ') $(grep -E '^demo_w' seeded/$n/eval.log | tr '\n' ' ')"
done
