#!/usr/bin/env python3
"""Builds the seeded-changes table of DESIGN.md section 11.6 from seeded/*/eval.log and records the
evaluation in each seeded/<id>/meta.json."""
import glob
import json
import os
import re

ROOT = os.path.dirname(os.path.dirname(os.path.abspath(__file__)))
rows = []
for d in sorted(glob.glob(os.path.join(ROOT, "seeded", "C*_m*"))):
    name = os.path.basename(d)
    log = open(os.path.join(d, "eval.log")).read() if os.path.exists(os.path.join(d, "eval.log")) else ""
    kv = dict(re.findall(r"^(\w+)=(\S+)$", log, re.M))
    checks = {k[6:-5]: int(v) for k, v in kv.items() if k.startswith("check_") and k.endswith("_exit")}
    viol = {k[6:-11]: int(v) for k, v in kv.items() if k.endswith("_violations")}
    try:
        meta = json.load(open(os.path.join(d, "meta.json")))
    except Exception:
        meta = {}
    demo_ok = kv.get("demo_without_patch_exit") == "0" and kv.get("demo_with_patch_exit") not in (None, "0") and kv.get("apply") == "0"
    caught = [p for p, e in checks.items() if e == 1]
    status = "caught by " + ", ".join(sorted(caught)) if caught else ("exit " + ",".join(f"{p}:{e}" for p, e in sorted(checks.items())) if checks else "not evaluated")
    meta["evaluation"] = dict(demo_fails_with_patch_and_passes_without=demo_ok, check_exit_codes=checks, violation_lines=viol,
                              how="tools/eval_mutant.sh: scratch worktree of /repo HEAD, demo without/with patch, then ./check <id> with SVX_REPO pointing at the patched worktree")
    json.dump(meta, open(os.path.join(d, "meta.json"), "w"), indent=1)
    what = (meta.get("what") or "").replace("|", "/").replace("\n", " ")
    rows.append(f"| {name} | {meta.get('property', name[:3])} | {what[:150]} | {'yes' if demo_ok else 'NO'} | {status} |")
print("| id | property | change (abridged) | demo confirmed | result of my checks |\n|---|---|---|---|---|")
print("\n".join(rows))
