#!/bin/bash
# tools/eval_refactor.sh <name> <property> [<property>...]
# Evaluates a behaviour-PRESERVING change (seeded/refactors/<name>/patch.diff) in a scratch worktree of /repo's HEAD:
# every given check must NOT report a violation (exit 0 expected; 2/3 = undecided / outside the engine's subset).
set -u
name=$1; shift
M=/verif/seeded/refactors/$name
out=$M/eval.log
: > $out
wt=/tmp/wt/evalr_$name
git -C /repo worktree add -q --detach $wt HEAD >>$out 2>&1
(cd $wt && git apply $M/patch.diff) >>$out 2>&1; echo "apply=$?" >>$out
cd /verif
for p in "$@"; do
  SVX_REPO=$wt timeout 3000 ./check $p > $M/check_$p.out 2>&1; echo "check_${p}_exit=$?" >>$out
  echo "check_${p}_violations=$(grep -c '^VIOLATION' $M/check_$p.out)" >>$out
done
git -C /repo worktree remove --force $wt
cat $out
