#!/bin/bash
cd /verif
export SVX_UNIT_LIMIT_S=300
tools/eval_mutant.sh C01_m1 C01 C13
tools/eval_mutant.sh C01_m2 C01
tools/eval_mutant.sh C03_m1 C03
tools/eval_mutant.sh C03_m2 C03
tools/eval_mutant.sh C06_m1 C06
tools/eval_mutant.sh C06_m2 C06
tools/eval_mutant.sh C07_m1 C07
tools/eval_mutant.sh C07_m2 C07
tools/eval_mutant.sh C08_m1 C08
tools/eval_mutant.sh C08_m2 C08
tools/eval_mutant.sh C09_m1 C09
tools/eval_mutant.sh C09_m2 C09
tools/eval_mutant.sh C10_m1 C10
tools/eval_mutant.sh C10_m2 C10
tools/eval_mutant.sh C17_m1 C17
tools/eval_mutant.sh C17_m2 C17
