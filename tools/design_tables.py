#!/usr/bin/env python3
"""Regenerates the machine-written regions of DESIGN.md:
  <!-- GENERATED:COUNTS --> ... <!-- /GENERATED:COUNTS -->   per-property numbers from evidence/*.json
  <!-- GENERATED:SEEDED --> ... <!-- /GENERATED:SEEDED -->   seeded-change table from seeded/*/eval.log
Run after the checks have written their evidence (./check <id>) and after tools/eval_*.sh."""
import glob
import json
import os
import re
import subprocess
import sys

ROOT = os.path.dirname(os.path.dirname(os.path.abspath(__file__)))


def counts():
    rows = ["| id | tier | unit configurations | obligations | discharged | known findings | bounded native stand-ins (never counted) | back ends (count / solver s) | wall s |",
            "|---|---|---|---|---|---|---|---|---|"]
    for f in sorted(glob.glob(os.path.join(ROOT, "evidence", "C*.json"))):
        d = json.load(open(f))
        c = d["coverage"]
        be = "; ".join(f"{k} {v['count']} / {v['seconds']}" for k, v in sorted(c["backends"].items()))
        nb = sum(b.get("clause_evaluations", 0) for b in c.get("bounded_native_stand_ins", []))
        rows.append(f"| {d['property_id']} | {d['tier']} | {c['unit_configs']} | {c['obligations']} | {c['discharged']} | "
                    f"{c['obligations_failing_as_recorded_known_findings']} | {nb} clause evaluations | {be} | {d['wall_s']} |")
    return "\n".join(rows)


def seeded():
    return subprocess.run([sys.executable, os.path.join(ROOT, "tools", "seeded_table.py")], capture_output=True, text=True).stdout.strip()


def main():
    p = os.path.join(ROOT, "DESIGN.md")
    s = open(p).read()
    for tag, fn in (("COUNTS", counts), ("SEEDED", seeded)):
        pat = re.compile(rf"(<!-- GENERATED:{tag} -->\n).*?(\n<!-- /GENERATED:{tag} -->)", re.S)
        if not pat.search(s):
            print(f"marker {tag} not found", file=sys.stderr)
            continue
        body = fn()
        s = pat.sub(lambda m, body=body: m.group(1) + body + m.group(2), s)
    open(p, "w").write(s)


if __name__ == "__main__":
    main()
