#!/usr/bin/env python3
"""Regenerates /verif/MANIFEST.json from the table below (kept in one place so it stays valid)."""
import json
import os

ROOT = os.path.dirname(os.path.dirname(os.path.abspath(__file__)))

TRUST = ("Real arithmetic for float32/float64 (A1); CPython/numpy basic indexing as modelled in svx.field (A2); pystencils "
         "region semantics and code generation trusted, loop independence discharged as C15 obligations (A3); numba compiles "
         "@njit code to its Python semantics (A4). Contracts are side-car files in /verif/contracts; the verified text is the "
         "function object created from /repo's source in the checking process.")

CLAIMED = {
    "C13": dict(
        text="Contract-based deductive proof: the real closure of every public Eulerian-grid generator (every option "
             "combination listed in contracts/c_eulerian.py, c_boundary.py, c_filter_rk.py) is executed on fields of symbolic "
             "extent; closed form on the region, ring value and frames are discharged at a fully symbolic Skolem cell for all "
             "shapes and contents (normaliser / z3 / cvc5). Filters: all cells for orders 1-2, deep interior for orders 3-4.",
        note=TRUST + " Strided views are covered because strides never enter the semantics (views are affine index maps).",
        technique="VC generation by symbolic execution of the real closures + polynomial normaliser + z3/cvc5",
        ref="5-C13"),
    "C20": dict(
        text="Contract-based deductive proof: Euler-forward advection/diffusion/stretching closures proved equal to "
             "field + dt*flux(field) with the flux closed form of C13; SSP-RK3 closure compared with (I+A+A^2/2+A^3/6) as a "
             "polynomial identity per component (refuted on the unchanged tree: recorded finding F1).",
        note=TRUST,
        technique="VC generation by symbolic execution + exact polynomial identity (normaliser) + z3",
        ref="5-C20"),
    "C01": dict(
        text="Contract-based deductive proof at caller level: the REAL simulator classes (constructor + time_step) are executed "
             "with symbolic grid size, domain length, viscosity, density, dt, free stream, arbitrary public state and garbage "
             "scratch buffers; all Eulerian kernels run for real, the Poisson solver is replaced by its contract (opaque solution, "
             "call-site obligations on construction and arguments). Vorticity, velocity, forcing and time are compared with the "
             "documented operator sequence written as spec functions, position class by position class (complete partition of "
             "all cells of all grids with n >= 2R+1), exact polynomial identities. Configurations: 2-D all 20; 3-D quick subset "
             "(all forcing/free-stream/width without filter, both solvers, filters of order 1-2), thorough all 280; passive 3.",
        note=TRUST + " Assumed: Poisson solver contract (the FFT solver class is verified against it in the C03 units when "
             "claimed; until then assumed), grid extents >= 2R+1 (smaller grids: bounded native runs only).",
        technique="symbolic execution of the real simulator step with callee contract for the Poisson solve + exact polynomial identity",
        ref="5-C01"),
    "C03": dict(
        text="Contract-based deductive proof of the SophT side of the unbounded solvers for all grid sizes and domain lengths: "
             "Green's function buffer equals the free-space Green's function sampled at even-reflected cell separations with the "
             "documented self-cell value; solve() transforms exactly the zero-padded right-hand side, hands the exact complex "
             "product with dx^d to the backward plan, reads the solution from the same corner box; every work buffer arbitrary "
             "at entry (independence of earlier solves); vector solve = three scalar solves; rhs untouched. FFTW assumed by "
             "contract; a BOUNDED native stand-in compares the real solver with the direct O(N^2) convolution on small grids.",
        note=TRUST + " Assumed: FFTW/pyfftw plan contract, lemma M4 (Hockney-Eastwood doubling). The bounded native stand-in "
             "(odd/even, non-cubic grids up to 5x6x7, two consecutive solves) backs exactly these two assumptions and is not "
             "counted as proved.",
        technique="symbolic execution of the real solver classes with np rebound and an FFT contract stub + normaliser/z3; bounded native comparison",
        ref="5-C03"),
    "C04": dict(
        text="Contract-based deductive proof of the conservation FORM from the public closures (single-valued ENO3 face flux in "
             "every upwind branch, every axis, 2-D/3-D; diffusion and curl-type forcing updates as telescoping differences), all "
             "values and shapes. Grid-sum invariance: exhaustive symbolic check on enumerated small grids (bounded shapes, all "
             "values; advection+diffusion under several upwind patterns, the 3-D Laplacian filter of orders 1-2 with arbitrary prior "
             "content of its work buffers) plus the telescoping lemma M1 for general shapes; the step-level operator sequence is "
             "the C01 proof.",
        note=TRUST + " Trusted lemma M1 (telescoping sums over a box). The step-level reach/margin bookkeeping is argued from the "
             "C01 operator sequence, not separately discharged.",
        technique="symbolic execution + exact polynomial identity; bounded-shape exhaustive sums",
        ref="5-C04"),
    "C05": dict(
        text="Contract-based deductive proof: each differential closure is run on a field defined as a degree-2 polynomial "
             "with SYMBOLIC coefficients sampled at the simulator's cell centres; its value at a symbolic interior cell equals "
             "the continuous operator of the polynomial times the documented prefactor (exact polynomial identities, normaliser). "
             "ENO3: per upwind branch pair, nodal products replaced by G(x_k): exact for cubics (same direction) / quadratics.",
        note=TRUST + " Filter Laplacians are observed through the public order-1 filter closures.",
        technique="symbolic execution of the real closures on polynomial-defined fields + exact polynomial identity",
        ref="5-C05"),
    "C06": dict(
        text="Contract-based deductive proof of the real support / cosine / Peskin weight closures and the interpolation closure "
             "(numba neutralised) for a marker in a SYMBOLIC cell of a grid of symbolic extent with symbolic in-cell offset "
             "(on-centre and strictly-inside cases both explored) and symbolic dx: nearest index, signed distances, closed-form "
             "weights, non-negativity, partition of unity, Peskin first moment, exact interpolation of constants / affine fields. "
             "The communicator CLASS constructor is checked (after other communicators were constructed in the same process) for "
             "handing every generator this instance's own parameters. Arithmetic is exact: the 'up to rounding / one ulp either side' "
             "part of the property is covered only by a BOUNDED native stand-in (cell centres, faces and their floating-point "
             "neighbours, both precisions), labelled as such and not counted as proved.",
        note=TRUST + " sqrt axiomatised exactly (t>=0, t^2=arg); cos by quarter-turn reduction and M6 facts. Marker counts 1-2 "
             "executed; independence of markers follows from the closed forms (each marker's outputs mention only its inputs).",
        technique="symbolic execution of the real njit closures on object arrays + normaliser + z3",
        ref="5-C06"),
    "C07": dict(
        text="Contract-based deductive proof: interpolation closed form and the STRONGEST postcondition of spreading over the "
             "whole grid (every cell accumulates exactly its window contributions; overlapping/identical supports; prior content "
             "kept) for arbitrary weight arrays, scalar and vector, 2-D/3-D, markers in symbolic cells. Adjointness, total force "
             "and first moment are corollaries of the two closed forms using the same weights and window (sum exchange lemma); "
             "the premise on the REAL weights (partition of unity of the real weight kernels, vanishing first moment for Peskin, "
             "marker on a cell centre and strictly inside forked) is discharged in this check as well (clauses shared with C06).",
        note=TRUST + " Two markers executed (all relative placements, since cells are symbolic); the marker loop for N>2 by the "
             "additive per-marker postcondition.",
        technique="symbolic execution of the real njit closures + z3 (LIA + linear real arithmetic)",
        ref="5-C07"),
    "C08": dict(
        text="Contract-based deductive proof for all real values: the real transfer_forcing_from_grid_to_body of the four rod "
             "grids and the 2-D / 3-D rigid grids (PyElastica helpers executed from source) with symbolic poses, generic director "
             "frames (quaternion parametrisation), velocities, masses, radii and marker forces: net force = -sum of marker "
             "forces; net moment about an arbitrary point of nodal forces + lab-frame couples = -moment of marker forces; rigid-"
             "body power identity; FlowForces adds the wrench to the body's external loads; interaction wiring against a grid stub.",
        note=TRUST + " Layouts bounded (2 elements, thorough 1-4; 3 markers with symbolic offsets; one representative surface "
             "layout with symbolic cap ratios; plus the layout produced by the REAL constructor of every derived grid class on one "
             "concrete small body, 5-9 markers, with the body state then symbolised). Trusted lemma M5. With C07 the fluid-side "
             "integral equals the marker total.",
        technique="symbolic execution of the real methods on object arrays + exact polynomial identity modulo |q|^2",
        ref="5-C08"),
    "C09": dict(
        text="Contract-based deductive proof for all real values: real compute_lag_grid_position_field / velocity_field of every "
             "grid class: rigid v_k = V + (Q^T Omega) x (x_k - X), body-fixed positions X + Q^T r, first-order pose-advance "
             "consistency, sphere translation; rods: rigid motion with the element cross-section, surface radius x cap ratio, "
             "edge offsets normal to the tangent, centre markers on the centre, nodal grid = nodes.",
        note=TRUST + " Layouts bounded as for C08; PyElastica pose-advance model assumed; M5.",
        technique="symbolic execution of the real methods on object arrays + exact polynomial identity modulo |q|^2",
        ref="5-C09"),
    "C10": dict(
        text="Contract-based deductive proof: every public method of the real VirtualBoundaryForcing from an ARBITRARY state "
             "satisfying the class invariant (ghost integral I): evaluation gives force = k I + c (Iu - V), leaves I and the "
             "clock unchanged, never writes the flow velocity / body arrays; time_step(dt) adds dt x last mismatch and dt to the "
             "clock for arbitrary dt; accumulate vs reset postconditions over the whole forcing field (superposition of bodies); "
             "ImmersedBodyFlowInteraction: coefficient rescaling by spacing^(dim-1), read-only velocity view, call wiring.",
        note=TRUST + " Trusted lemma M8 (induction over call sequences from method contracts). Two markers in symbolic cells.",
        technique="class invariant + method contracts by symbolic execution of the real methods; modular use of the evaluation contract",
        ref="5-C10"),
    "C11": dict(
        text="Contract-based verification of the contraction structure of the real solve()/vector_field_solve() of both "
             "fast-diagonalisation solvers for ALL real values on bounded non-cubic sizes (eigenvector matrices, inverses, "
             "spectral weights and right-hand side are symbolic; numpy's own tensordot/multi_dot run on them): the result is "
             "the mode-product formula with the correct axis pairing and V / V^-1 placement, written to the whole output, rhs "
             "untouched, independent of the spectral buffer's prior content. The real constructor path is executed with LAPACK and "
             "scipy.sparse by contract stubs: every 1-D matrix is the Neumann Laplacian/dx^2, eigenpairs stay together under the "
             "descending sort, the weight tensor is 1/(sum of eigenvalues) with exactly one zero at the last index. LAPACK itself "
             "and the residual of the discrete Neumann problem (-Lap_h u = f - mean f, zero mean, real result of the working precision) "
             "are covered by a BOUNDED native stand-in on small non-cubic grids, labelled as such and not counted as proved.",
        note=TRUST + " Assumed: LAPACK (eigh, inv), argsort, lemma M9. Sizes of the symbolic part bounded ((2,3),(3,2),(2,3,2); "
             "thorough adds (3,2,4)); the all-n mode-product abstract domain of the design was not built. eigh/inv stubs are functions of "
             "their argument and are matched to axes by that argument (axes with equal operators may share a decomposition). The "
             "native stand-in includes solvers of the other precision constructed earlier in the same process.",
        technique="symbolic execution of the real contraction calls on object arrays + exact polynomial identity; bounded native residual check",
        ref="5-C11"),
    "C12": dict(
        text="Contract-based deductive proof: the real curl/divergence/update closures are COMPOSED symbolically on symbolic "
             "fields of symbolic extent; div(curl)=0, curl-type updates leave div unchanged, 2-D stream-function velocity "
             "divergence-free with wide-Laplacian curl, forcing update = omega + library curl, penalised update = forcing update "
             "of the difference: exact identities at a symbolic cell whose stencils avoid the ring. The real 3-D simulator's "
             "get_vorticity_divergence_l2_norm is under contract (monitored buffer = library divergence of the current vorticity, "
             "0 on the ring, state not modified, result = l2 norm times dx^(3/2); np.linalg.norm by contract).",
        note=TRUST,
        technique="symbolic composition of the real closures + exact polynomial identity (normaliser)",
        ref="5-C12"),
    "C14": dict(
        text="Contract-based relational proof on the REAL simulators: the step is executed on a state and on its relabelling "
             "(2-D: transpose, two mirrors; 3-D: 3-cycle, transposition, mirror; non-square/non-cubic symbolic extents; vorticity "
             "as pseudo-scalar / pseudo-vector; free stream and forcing transformed), both from the same symbols; at a symbolic cell "
             "whose stencils avoid the boundary zone the results commute with the relabelling (exact polynomial identities; upwind "
             "switches oriented canonically under the property's premise that no face velocity sum is zero). Poisson solve by "
             "contract (isotropy from the C03 Green's-function obligations).",
        note=TRUST + " Assumed: Poisson contract incl. isotropy; premise 'no face velocity sum is exactly zero'; interior cells "
             "(the compact-support premise of the property makes boundary-zone cells trivial). Configurations: 2-D NS with/without "
             "forcing, passive 2-D/3-D, 3-D NS with forcing and free stream, no filter.",
        technique="two symbolic executions of the real step related by a signed axis permutation + exact polynomial identity",
        ref="5-C14"),
    "C15": dict(
        text="Contract-based deductive proof by dependence analysis at EVERY kernel call performed by every contract unit "
             "(all generators, the three simulators' steps with their real buffer wiring, filters, SSP-RK3): written view vs each "
             "read access of the same buffer must not collide across different cells (LIA query, or decided by buffer identity); "
             "every kernel writes at the centre cell only; spreading generators are serial (AST obligations); source scans of all "
             "of sopht/: no reduction over a numba.prange loop, num_threads only handed on (never computed with).",
        note=TRUST + " Not covered: FFTW's own multi-threaded plans; fastmath reassociation inside one numba reduction. The two "
             "source scans are syntactic criteria (stated as assumptions of their units).",
        technique="read/write-set extraction from the real assignment lists at every call + LIA (z3) + AST obligations",
        ref="5-C15"),
    "C16": dict(
        text="Contract-based deductive proof of the real compute_advection_diffusion_stable_timestep for all velocity fields, "
             "dx, cfl, nu > 0, prefactor in (0,1] (positivity, linearity, both limits; np.amax by contract), and of the maximum "
             "principle of the real Euler-forward diffusion closures (convex weights, no new extrema, ring unchanged).",
        note=TRUST + " Assumed: np.amax contract, finfo eps in (0, 2^-23], nu > 0. The simulators' compute_stable_timestep methods "
             "are checked for forwarding the whole velocity field, a grid-shaped disjoint scratch array, dx, nu, cfl, dimension and "
             "for scaling by the prefactor, on a fresh simulator AND after a time step (nothing remembered from earlier steps).",
        technique="symbolic execution of the real function with np rebound to svx.symnp + z3 (QF_NRA)",
        ref="5-C16"),
    "C17": dict(
        text="Contract-based verification of the real IO / CosseratRodIO / EulerianFieldIO methods executed against a contract "
             "stub of h5py with array elements being OPAQUE SYMBOLS (bit-exactness = identity of the symbol that arrives; covers "
             "NaN/inf/denormals by parametricity): sources untouched by save, documented on-disk names and shapes, load(save(x)) "
             "restores every field, grid and time stamp, every missing dataset and every differing grid parameter raises. "
             "Shapes and registries are an enumerated family (dim 2/3, N = 1..5 incl. N == dim, 1-2 grids, grids without fields, "
             "equal names on two grids, strided views, column-major arrays, values written after registration): all contents, bounded "
             "layouts. Native replay with real h5py and NaN/inf payloads.",
        note=TRUST + " Assumed: h5py contract (verbatim storage, visit enumerates all paths, read_direct/write_direct need "
             "C-contiguous arrays), backed by the native runs with the "
             "real h5py. 'differ' = beyond numpy.allclose default tolerance. Level: proof over values, bounded (exhaustive) layouts.",
        technique="parametric symbolic execution of the real IO methods against an h5py contract stub",
        ref="5-C17"),
    "C18": dict(
        text="Contract-based proof of hidden-state freedom: every step of the three simulators, both Poisson solver classes "
             "(stub / FFT side), the Laplacian filters and the SSP-RK3 closure are executed with ALL scratch state arbitrary "
             "(garbage symbols: buffer_scalar/vector_field, stream function, solver work buffers, filter buffers, midstep buffer) "
             "and proved equal to specifications that do not mention it; the virtual-boundary object's only persistent state is "
             "(integral, last mismatch, clock) (C10 invariant); the IO round trip restores the public state bit-exactly (C17); "
             "restart helper: path enumeration over directory listings (largest index, returned time, refusal when empty or when "
             "flow and body times differ). Lemma M8 lifts these to: the state after step k+1 is a function of the checkpointed "
             "public state.",
        note=TRUST + " Assumed: PyElastica save_state/load_state (upstream issue cited by the repository's xfail test), M8, "
             "h5py contract, checkpoint naming convention. The body time-stepper itself is outside the claim.",
        technique="non-interference by symbolic execution with garbage scratch state + path enumeration of the restart helper",
        ref="5-C18"),
    "C19": dict(
        text="Contract-based deductive proof: Brinkmann closures (convex combination, identity at chi=0, contraction identity), "
             "characteristic function (range, plateaus incl. +-w, monotone, H(phi)+H(-phi)=1; sin axiomatised), boundary damping "
             "(all position classes, widths 1-4, symbolic extents), Laplacian filters (stencil extracted from the real closure "
             "by linearity; Fourier symbol = documented transfer function; constants kept, checkerboard annihilated; work-buffer "
             "independence from the closed forms).",
        note=TRUST + " Trusted lemmas: M3 (Fourier symbol of an even stencil via Chebyshev polynomials), M6 (sin range/sign/"
             "Lipschitz facts, instantiated per atom). Lagrangian Brinkmann variant: see C19 evidence (covered by the coupling units "
             "when built).",
        technique="symbolic execution + normaliser + z3 with per-atom trigonometric axioms",
        ref="5-C19"),
}

NOT_YET = "check not built yet (work in progress; see DESIGN.md section 5 for the plan)"
NA = {
    "C02": "convergence of families of floating-point simulations to PDE solutions is not expressible as a contract on any "
           "function of this code base; see DESIGN.md section 10",
}


def main():
    ids = [json.loads(l)["id"] for l in open(os.path.join(ROOT, "properties.jsonl"))]
    checks = []
    for pid in ids:
        if pid not in CLAIMED:
            continue
        c = CLAIMED[pid]
        checks.append(dict(
            property_id=pid,
            quick_cmd=f"./check {pid} --tier quick",
            thorough_cmd=f"./check {pid} --tier thorough",
            evidence_file=f"evidence/{pid}.json",
            replay_cmd_template=f"./check {pid} --replay {{path}}",
            engine="svx",
            level_claimed=dict(category=c.get("category", "proof"), text=c["text"], design_ref=f"DESIGN.md section {c['ref']}"),
            level_note=c["note"],
            technique=c["technique"],
        ))
    na = [dict(property_id=p, reason=NA.get(p, NOT_YET)) for p in ids if p not in CLAIMED]
    m = dict(
        version=1,
        setup_cmd="./setup.sh",
        hooks=dict(
            guard="SOPHT_TEAM_SOPHT_VERIF",
            enable="none needed: all instrumentation is side-car (import-time rebinding inside the checker's own processes); "
                   "no commit in /repo carries a hook",
            baseline_off_cmd="cd /repo && /venv/bin/python -m pytest -ra -q -p no:cacheprovider --timeout=900 --continue-on-collection-errors",
            source_commits=[],
            add_only=True,
        ),
        engines=[dict(name="svx", path="svx/", serves_properties=sorted(CLAIMED),
                      kind_free_text="verification-condition generator: executes the real SophT closures on symbolic fields of "
                                     "symbolic extent, side-car contracts, obligations discharged by an exact polynomial "
                                     "normaliser, z3 and cvc5; refutations replayed on the natively compiled code")],
        checks=checks,
        notes="Fix commits in /repo (unguarded, 'fix:' prefix): a1b0777 (boundary penalisation width 1), 78b3125 (stable time step), 4f039fa, 73d030e (IO), 567daa2 (fast-diagonalisation eigh). Known findings: known_findings.json.",
        not_applicable=na,
    )
    json.dump(m, open(os.path.join(ROOT, "MANIFEST.json"), "w"), indent=1)
    try:
        import jsonschema
        jsonschema.validate(m, json.load(open("/root/.vp/MANIFEST.schema.json")))
        print("MANIFEST.json valid;", len(checks), "checks")
    except ImportError:
        print("written (jsonschema not importable here)")


if __name__ == "__main__":
    main()
