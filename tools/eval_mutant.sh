#!/bin/bash
# tools/eval_mutant.sh <mutant-name> <property> [<property>...]
# Evaluates a seeded change WITHOUT touching /repo: a scratch worktree of /repo's HEAD gets the patch;
#  1. the demonstration must fail with the patch and pass without it,
#  2. the given checks run against the patched worktree (SVX_REPO), results in seeded/<name>/.
set -u
name=$1; shift
M=/verif/seeded/$name
out=$M/eval.log
: > $out
wt=/tmp/wt/eval_$name
git -C /repo worktree add -q --detach $wt HEAD >>$out 2>&1
cd $wt
PYTHONPATH=$wt timeout 1200 /venv/bin/python $M/demo.py >$M/demo_without.out 2>&1; echo "demo_without_patch_exit=$?" >>$out
git apply $M/patch.diff >>$out 2>&1; echo "apply=$?" >>$out
PYTHONPATH=$wt timeout 1200 /venv/bin/python $M/demo.py >$M/demo_with.out 2>&1; echo "demo_with_patch_exit=$?" >>$out
cd /verif
for p in "$@"; do
  SVX_REPO=$wt timeout 3000 ./check $p > $M/check_$p.out 2>&1; echo "check_${p}_exit=$?" >>$out
  echo "check_${p}_violations=$(grep -c '^VIOLATION' $M/check_$p.out)" >>$out
done
git -C /repo worktree remove --force $wt
cat $out
