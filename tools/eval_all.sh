#!/bin/bash
cd /verif
tools/eval_mutant.sh C13_m1 C13
tools/eval_mutant.sh C13_m2 C13 C19
tools/eval_mutant.sh C19_m1 C19 C13
tools/eval_mutant.sh C19_m2 C19 C13
tools/eval_mutant.sh C20_m1 C20 C13
tools/eval_mutant.sh C20_m2 C20 C13
tools/eval_mutant.sh C04_m1 C04 C13
tools/eval_mutant.sh C04_m2 C04 C13 C19
tools/eval_mutant.sh C12_m1 C12 C13
tools/eval_mutant.sh C12_m2 C12 C13
tools/eval_mutant.sh C16_m1 C16
tools/eval_mutant.sh C16_m2 C16
tools/eval_mutant.sh C05_m1 C05
tools/eval_mutant.sh C05_m2 C05
tools/eval_mutant.sh C15_m2 C15 C13
tools/eval_mutant.sh C15_m1 C15
