#!/bin/bash
cd /verif
export SVX_UNIT_LIMIT_S=300
tools/eval_mutant.sh C11_m1 C11
tools/eval_mutant.sh C11_m2 C11
tools/eval_mutant.sh C14_m1 C14 C01
tools/eval_mutant.sh C14_m2 C14 C03
tools/eval_mutant.sh C18_m1 C18 C03
tools/eval_mutant.sh C18_m2 C18
tools/eval_mutant.sh C07_m1 C07
tools/eval_mutant.sh C08_m2 C08
tools/eval_mutant.sh C12_m1 C12
tools/eval_mutant.sh C12_m2 C12
tools/eval_mutant.sh C15_m1 C15
tools/eval_mutant.sh C06_m2 C06
