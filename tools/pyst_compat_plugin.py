"""pytest plugin (use: -p pyst_compat_plugin with PYTHONPATH=/verif/tools): lets SophT's pystencils-1.x
kernel configuration run on the installed pystencils 2.0 (renames default_number_float -> default_dtype).
Only used to exercise the repository's own tests that the sandbox's pystencils version otherwise
prevents from running; nothing in /repo is edited."""
import warnings

import pystencils as ps

warnings.filterwarnings("ignore")
_orig = ps.CreateKernelConfig


def _compat(**kw):
    if "default_number_float" in kw:
        kw["default_dtype"] = kw.pop("default_number_float")
    return _orig(**kw)


ps.CreateKernelConfig = _compat
