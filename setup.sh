#!/bin/sh
# Builds the overlay venv used by every check: Python 3.12 (same interpreter as /venv) with
# z3-solver, cvc5, jsonschema from the offline wheelhouse, plus a .pth that exposes /venv's
# site-packages (sopht itself is an editable install of /repo there).
set -e
cd "$(dirname "$0")"
PY=/root/.pyenv/versions/3.12.1/bin/python
[ -x "$PY" ] || PY=$(readlink -f /venv/bin/python)
if [ ! -x .venv/bin/python ] || ! .venv/bin/python -c "import z3, cvc5, jsonschema" 2>/dev/null; then
  rm -rf .venv
  "$PY" -m venv .venv
  PIP_NO_INDEX=1 .venv/bin/pip install -q --no-index --find-links /opt/veriftools/wheels z3-solver cvc5 jsonschema
  echo "import site; site.addsitedir('/venv/lib/python3.12/site-packages')" > .venv/lib/python3.12/site-packages/_repo_venv.pth
fi
.venv/bin/python -c "import z3, cvc5, sopht, pystencils, numba, elastica, h5py; print('svx venv ok', z3.get_version_string())"
