"""svx.objnp -- stand-in for the module global `np` in modules that allocate SMALL concrete arrays
(Lagrangian / body-side state): allocations become numpy object arrays whose elements are symbols,
so that real numpy does all shape / broadcasting / indexing work while values stay symbolic.
  zeros / zeros_like / ones : object arrays of exact constants
  empty / empty_like        : object arrays of FRESH arbitrary symbols (uninitialised memory)
Everything else is numpy's own."""
import itertools

import numpy as _np

from . import ctx
from .sym import Sym, mk_atom


class _Counter:
    def __init__(self):
        self.n = 0

    def __next__(self):
        self.n += 1
        return self.n - 1


_ids = _Counter()
ctx.RESET_HOOKS.append(lambda: setattr(_ids, "n", 0))


def _shape(shape):
    return tuple(int(s) for s in (shape if isinstance(shape, (tuple, list)) else (shape,)))


def fresh(name, shape, sort="real"):
    shape = _shape(shape)
    a = _np.empty(shape, dtype=object)
    for idx in _np.ndindex(*shape):
        a[idx] = Sym.atom(mk_atom("cell", (name, tuple(Sym.const(i).key() for i in idx)), sort))
    return a


def const(shape, c):
    shape = _shape(shape)
    a = _np.empty(shape, dtype=object)
    for idx in _np.ndindex(*shape):
        a[idx] = Sym.const(c)
    return a


class ObjNp:
    pi = _np.pi
    ndarray = _np.ndarray
    float32 = _np.float32
    float64 = _np.float64

    def __getattr__(self, name):
        return getattr(_np, name)

    def zeros(self, shape, dtype=None, **kw):
        return const(shape, 0)

    def ones(self, shape, dtype=None, **kw):
        return const(shape, 1)

    def empty(self, shape, dtype=None, **kw):
        return fresh(f"uninit{next(_ids)}", shape, "int" if dtype in (int, _np.int64, _np.int32) else "real")

    def zeros_like(self, a, dtype=None, **kw):
        return const(_np.shape(a), 0)

    def ones_like(self, a, dtype=None, **kw):
        return const(_np.shape(a), 1)

    def empty_like(self, a, dtype=None, **kw):
        return fresh(f"uninit{next(_ids)}", _np.shape(a))

    def array(self, obj, dtype=None, **kw):
        a = _np.array(obj, dtype=object) if _has_sym(obj) else _np.array(obj, dtype=dtype, **kw)
        return a

    def cross(self, a, b, **kw):
        return _np.cross(a, b, **kw)


def _has_sym(obj):
    if isinstance(obj, Sym):
        return True
    if isinstance(obj, _np.ndarray):
        return obj.dtype == object
    if isinstance(obj, (list, tuple)):
        return any(_has_sym(o) for o in obj)
    return False
