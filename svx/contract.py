"""svx.contract -- side-car contract harness.

A *unit* is a Python function `unit(K, **cfg)` written against the small API of `KBase`.  It names
the real function under contract (`K.gen("gen_..."...)` looks it up in /repo's sopht), creates
inputs, calls the real closure and states `ensures` clauses.  The same unit text runs in two modes:

  SymK     inputs are symbolic fields / reals over symbolic grid extents; each clause becomes a named
           obligation  facts & when => goal  that is discharged for all inputs (normaliser, z3, cvc5).
  NativeK  inputs are numpy arrays built from a solver model (replay of a refuted obligation) or
           from a seed (engine self-check / bounded stand-in); the real natively compiled code
           runs and every clause is evaluated in floating point.
"""
from __future__ import annotations

import importlib
import math
import time
import traceback

import numpy as np

from . import ctx, smt
from .field import Buffer, View, S
from .sym import ATOMS, BoolSym, Sym, Unsupported, all_of, any_of, as_bool, ite, mk_atom

UNITS: dict = {}
EXTENT_NAMES: set = set()


def unit(name, props, configs=({},), replay=True, desc="", **extra):
    """Register a contract unit.  props: property ids its clauses serve by default.
    extra: kernels=False (no pystencils calls: skipped by C15), assumes=(...), tier="thorough"."""
    def deco(fn):
        UNITS[name] = dict(name=name, fn=fn, props=tuple(props), configs=list(configs), desc=desc,
                           module=fn.__module__, **extra)
        return fn
    return deco


def cfg_str(cfg):
    # lists and tuples print alike (a configuration that went through JSON comes back with lists)
    show = lambda v: tuple(v) if isinstance(v, list) else v
    return ",".join(f"{k}={show(cfg[k])}" for k in sorted(cfg)) if cfg else ""


# polymorphic helpers usable in both modes ----------------------------------------------------
def ite_(c, a, b):
    if isinstance(c, BoolSym) or isinstance(a, Sym) or isinstance(b, Sym):
        if isinstance(c, (bool, np.bool_)):
            return a if c else b
        d = ctx.decide(c) if isinstance(c, BoolSym) else None  # the current facts stay assumptions of the clause
        if d is not None:
            return a if d else b
        return ite(c, a, b)
    return a if c else b


def and_(*cs):
    if any(isinstance(c, BoolSym) for c in cs):
        return all_of(*cs)
    return all(cs)


def or_(*cs):
    if any(isinstance(c, BoolSym) for c in cs):
        return any_of(*cs)
    return any(cs)


def not_(c):
    return ~c if isinstance(c, BoolSym) else (not c)


def implies_(a, b):
    return or_(not_(a), b)


def fn_(name):
    def f(x):
        if isinstance(x, Sym):
            return getattr(x, name)()
        return getattr(math, name)(x)
    return f


sin_, cos_, sqrt_, fabs_, log_, floor_ = (fn_(n) for n in ("sin", "cos", "sqrt", "fabs", "log", "floor"))


class Obligation:
    __slots__ = ("name", "props", "goal", "assumptions", "kind", "result", "note", "lhs", "rhs")

    def __init__(self, name, props, goal, assumptions, kind="ensures", note=""):
        self.name = name
        self.props = tuple(props)
        self.goal = goal
        self.assumptions = assumptions
        self.kind = kind
        self.result = None
        self.note = note


class KBase:
    mode = "?"

    def __init__(self, unit_name, props, cfg):
        self.unit = unit_name
        self.props = props
        self.cfg = cfg
        self.functions = []  # real functions under contract reached by this unit

    # -- lookup of the real code -----------------------------------------------------------
    def repo(self, qualname):
        """'pkg.mod:attr.attr' -> object from /repo's sopht."""
        mod, _, attr = qualname.partition(":")
        obj = importlib.import_module(mod)
        for part in attr.split("."):
            obj = getattr(obj, part)
        self.functions.append(qualname)
        return obj

    def gen(self, genname, **kw):
        import sopht.numeric.eulerian_grid_ops as spne

        self.functions.append(f"sopht.numeric.eulerian_grid_ops:{genname}")
        kw.setdefault("real_t", self.real_t)
        return getattr(spne, genname)(**kw)

    real_t = np.float64

    def interior(self, c, shape, g):
        return and_(*[and_(ci >= g, ci < n - g) for ci, n in zip(c, shape)])


# =============================================================================================
# symbolic mode
# =============================================================================================
class SymK(KBase):
    mode = "sym"

    def __init__(self, unit_name, props, cfg):
        super().__init__(unit_name, props, cfg)
        self.obligations: list[Obligation] = []
        self.fields: dict = {}
        self._n = 0
        self.path = ""
        self.arrays0: dict = {}
        self._keep: list = []

    CONCRETE_EXTENTS = (70, 67, 73)  # bounded-shape fallback (see run_unit_sym): non-cubic, larger than any block size met

    def ext(self, name, lo=1):
        if getattr(self, "concrete_ext", False):
            v = max(int(lo), self.CONCRETE_EXTENTS[len(self.concrete_exts) % len(self.CONCRETE_EXTENTS)])
            self.concrete_exts[name] = v
            return v
        n = Sym.I(name)
        EXTENT_NAMES.add(name)
        ctx.assume(n >= lo)
        return n

    def int(self, name, lo=None, hi=None):
        n = Sym.I(name)
        if lo is not None:
            ctx.assume(n >= lo)
        if hi is not None:
            ctx.assume(n <= hi)
        return n

    def real(self, name, pos=False, nonneg=False):
        x = Sym.R(name)
        if pos:
            ctx.assume(x > 0)
        if nonneg:
            ctx.assume(x >= 0)
        return x

    def field(self, name, shape, kind="real", init=None):
        """fresh buffer; arbitrary initial content unless `init(idx)` defines it."""
        shape = tuple(shape)
        b = Buffer(name, shape + ((2,) if kind == "complex" else ()), kind=kind)
        b.init = init
        v = b.full_view()
        self.fields[name] = v
        return v

    def array(self, name, shape, init=None, kind="real"):
        """small concrete-shape array of symbolic values (Lagrangian / body-side data): a numpy
        object array whose elements are fresh symbols `name[i,j,..]` (or init(idx)); real numpy does
        shape, broadcasting and indexing work.  The code under contract mutates it in place."""
        shape = tuple(int(s) for s in shape)
        arr = np.empty(shape, dtype=object)
        for idx in np.ndindex(*shape):
            if init is not None:
                arr[idx] = S(init(idx))
            else:
                arr[idx] = Sym.atom(mk_atom("cell", (name, tuple(Sym.const(i).key() for i in idx)), "int" if kind == "int" else "real"))
        self.arrays0[id(arr)] = arr.copy()
        self._keep.append(arr)
        return arr

    def aval(self, arr, idx):
        return S(arr[tuple(idx)])

    def aold(self, arr, idx):
        return S(self.arrays0[id(arr)][tuple(idx)])

    def array_unchanged(self, clause, arr, props=None):
        old = self.arrays0[id(arr)]
        same = all(S(arr[i]).same(S(old[i])) for i in np.ndindex(*arr.shape))
        self.obligations.append(Obligation(self._name(clause), props or self.props, BoolSym.const(bool(same)),
                                           ctx.facts(), kind="frame-log" if same else "ensures",
                                           note="object array identical element by element"))

    def cell(self, shape, name="c", margin=0):
        """Skolem cell: fresh integers with margin <= c_a < n_a - margin."""
        self._n += 1
        c = []
        for a, n in enumerate(shape):
            v = Sym.I(f"{name}{self._n}_{a}")
            ctx.assume(v >= margin)
            ctx.assume(v < n - margin)
            c.append(v)
        return tuple(c)

    def requires(self, cond):
        ctx.assume(as_bool(cond))

    def havoc(self, arr):
        """arbitrary prior content from here on: models 'whatever the buffer held before this call'
        (scratch / work buffers must not carry information into a call)."""
        buf = arr.buf
        self._havocs = getattr(self, "_havocs", 0) + 1
        fam = f"{buf.name}!havoc{self._havocs}"

        def rhs(idx, fam=fam):
            return Sym.atom(mk_atom("cell", (fam, tuple(i.key() for i in idx)), "real"))

        buf.write([(Sym.const(0), e) for e in buf.extents], rhs, "havoc")

    def case(self, guard):
        """`for _ in K.case(g): ...` -- run the body once under the extra assumption g (scoped);
        skipped when g is infeasible under the current facts."""
        g = as_bool(guard)
        if ctx.decide(g) is False:
            return
        with ctx.scope():
            ctx.assume(g)
            yield True

    def value(self, arr, c, part=None):
        if part is not None:
            arr = arr.real if part == "re" else arr.imag
        return arr.at(c)

    def old(self, arr, c, part=None):
        if part is not None:
            arr = arr.real if part == "re" else arr.imag
        return arr.old(c)

    def _name(self, clause):
        cs = cfg_str(self.cfg)
        return f"{self.unit}/{clause}" + (f"[{cs}]" if cs else "") + self.path

    def ensures(self, clause, cond, when=True, props=None, note=""):
        cond = as_bool(cond) if not isinstance(cond, BoolSym) else cond
        assumptions = ctx.facts()
        if when is not True:
            w = as_bool(when)
            if w.is_const() and not w.value():
                return
            assumptions.append(w)
        self.obligations.append(Obligation(self._name(clause), props or self.props, cond, assumptions, note=note))

    def ensures_eq(self, clause, lhs, rhs, when=True, props=None, note=""):
        lhs, rhs = S(lhs), S(rhs)
        d = lhs - rhs
        if not d.is_zero():
            d = _pin_integers(d)
        if d.is_zero():
            goal = BoolSym.const(True)
        else:
            goal = BoolSym(("eq", d.key())) if not d.is_const() else BoolSym.const(False)
        self.ensures(clause, goal, when, props, note)

    def signature(self, clause, lhs, rhs, when=True, props=None):
        """characterisation of a RECORDED finding's behaviour (known_findings.json `signature`): not
        a property obligation; a known finding is only accepted while its signature is proved, so a
        different defect at the same obligation is still reported."""
        n = len(self.obligations)
        self.ensures_eq(clause, lhs, rhs, when, props)
        for o in self.obligations[n:]:
            o.kind = "signature"

    def signature_bool(self, clause, cond, props=None):
        """boolean form of `signature` (characterisation of a recorded finding's behaviour)"""
        n = len(self.obligations)
        self.ensures(clause, cond, props=props)
        for o in self.obligations[n:]:
            o.kind = "signature"

    def unchanged(self, clause, arr, props=None):
        """whole array bit-identical to its initial content (frame)."""
        base = arr.buf
        if not base.log:
            o = Obligation(self._name(clause), props or self.props, BoolSym.const(True), [], kind="frame-log",
                           note=f"update log of buffer {base.name} is empty")
            self.obligations.append(o)
            return
        full = base.full_view()
        c = self.cell([s[3] for s in full.vaxes], name="fr")
        self.ensures_eq(clause, full.at(c), full.old(c), props=props)

    def run(self, fn, *a, **kw):
        return fn(*a, **kw)

    def expect_raises(self, clause, exc_types, fn, *a, props=None, **kw):
        try:
            fn(*a, **kw)
        except exc_types as e:
            self.obligations.append(Obligation(self._name(clause), props or self.props, BoolSym.const(True),
                                               [], kind="raises", note=f"raised {type(e).__name__}: {e}"))
            return True
        self.obligations.append(Obligation(self._name(clause), props or self.props, BoolSym.const(False),
                                           ctx.facts(), kind="raises", note="returned normally"))
        return False


def _atomic_cmps(b: BoolSym, out):
    k = b.k
    if k[0] in ("lt", "le", "eq"):
        out.append((k[0], Sym._from_key(k[1])))
    elif k[0] == "and":
        for x in k[1]:
            _atomic_cmps(BoolSym(x), out)


def _pin_integers(d: Sym) -> Sym:
    """substitute integer symbols whose value the current facts determine (a constant, or an
    affine expression such as nx - 1 for a Skolem cell confined to a one-cell class); justified by
    the facts, which stay among the assumptions."""
    for _round in range(8):
        ids = [a for a in smt.all_atoms([d]) if ATOMS[a].kind == "var" and ATOMS[a].sort == "int"]
        # one symbol per round (no cyclic rewriting); grid extents are eliminated last
        ids.sort(key=lambda a: (ATOMS[a].args[0] in EXTENT_NAMES, a))
        mapping = {}
        cmps = []
        for f in ctx.ST.facts:
            _atomic_cmps(f, cmps)
        for a in ids:
            me = Sym.atom(ATOMS[a])
            if mapping:
                break
            v = ctx.unique_int_value(me)
            if v is not None:
                mapping[a] = Sym.const(v)
                continue
            for op, lin in cmps:
                aff = lin.as_affine()
                if aff is None or not lin.is_int_sorted():
                    continue
                c0, coeffs = aff
                co = coeffs.get(a)
                if co not in (1, -1):
                    continue
                # candidate: the bound is tight.  lin (+1 for strict) == 0 solved for the symbol
                rest = lin - co * me + (1 if op == "lt" else 0)
                cand = -rest if co == 1 else rest
                if a in cand.atoms():
                    continue
                if ctx.decide(me == cand) is True:
                    mapping[a] = cand
                    break
        if not mapping:
            return d
        d = d.subst(mapping)
        if d.is_zero():
            return d
    return d


# --------------------------------------------------------------------------------------------
# dependence obligations (C15), generated from the kernel calls a unit performed
# --------------------------------------------------------------------------------------------
def dependence_obligations(K: SymK, calls, facts):
    out = []
    seen = set()
    sfx = (f"[{cfg_str(K.cfg)}]" if K.cfg else "") + K.path
    trivial = {}

    def note_trivial(call, wname, rname, offs, why):
        key = (call["kernel"], wname, rname, tuple(offs), why)
        trivial[key] = trivial.get(key, 0) + 1

    for ci, call in enumerate(calls):
        space = call["space"]
        dim = len(space)
        for wi, (wname, wv, reads) in enumerate(call["writes"]):
            for (rname, offs, rv) in reads:
                if rv.buf is not wv.buf:
                    note_trivial(call, wname, rname, offs, "distinct buffers")
                    continue
                same_view = all(a[0] == b[0] and (a[0] == "fix" and a[2].same(b[2]) or
                                                  a[0] == "ax" and a[2].same(b[2]))
                                for a, b in zip(wv.spec, rv.spec))
                if same_view and not any(offs):
                    note_trivial(call, wname, rname, offs, "identical view read at the centre cell")
                    continue  # the written cell itself, read at the centre
                sig = (call["kernel"], wname, rname, offs, tuple(str(s) for s in wv.spec), tuple(str(s) for s in rv.spec))
                if sig in seen:
                    continue
                seen.add(sig)
                c = [Sym.I(f"dep{ci}_{wi}_c{a}") for a in range(dim)]
                d = [Sym.I(f"dep{ci}_{wi}_d{a}") for a in range(dim)]
                rng = all_of(*[(c[a] >= space[a][0]) & (c[a] < space[a][1]) &
                               (d[a] >= space[a][0]) & (d[a] < space[a][1]) for a in range(dim)])
                widx = wv.buf_index(c)
                ridx = rv.buf_index([d[a] + offs[a] for a in range(dim)])
                hit = all_of(*[x == y for x, y in zip(widx, ridx)])
                same_cell = all_of(*[c[a] == d[a] for a in range(dim)])
                goal = (~hit) | same_cell
                out.append(Obligation(
                    f"{K.unit}/dependence/call{ci}.{wname}<-{rname}{list(offs)}" + (f"[{cfg_str(K.cfg)}]" if K.cfg else "") + K.path,
                    ("C15",), goal, list(facts) + [rng], kind="dependence",
                    note=f"kernel {call['kernel']} writes {wname} and reads {rname} at offset {offs} from the same buffer {wv.buf.name}"))
            # two writes of one call hitting the same cell from different iterations
            for wj, (wname2, wv2, _r) in enumerate(call["writes"]):
                if wj <= wi or wv2.buf is not wv.buf:
                    continue
                c = [Sym.I(f"ww{ci}_{wi}_{wj}_c{a}") for a in range(dim)]
                d = [Sym.I(f"ww{ci}_{wi}_{wj}_d{a}") for a in range(dim)]
                rng = all_of(*[(c[a] >= space[a][0]) & (c[a] < space[a][1]) &
                               (d[a] >= space[a][0]) & (d[a] < space[a][1]) for a in range(dim)])
                hit = all_of(*[x == y for x, y in zip(wv.buf_index(c), wv2.buf_index(d))])
                same_cell = all_of(*[c[a] == d[a] for a in range(dim)])
                out.append(Obligation(
                    f"{K.unit}/dependence/call{ci}.{wname}|{wname2}" + (f"[{cfg_str(K.cfg)}]" if K.cfg else "") + K.path,
                    ("C15",), (~hit) | same_cell, list(facts) + [rng], kind="dependence",
                    note=f"kernel {call['kernel']} writes {wname} and {wname2} into buffer {wv.buf.name}"))
    # accesses decided by buffer identity alone (one obligation per kernel / field pair / reason)
    for (kid, wname, rname, offs, why), n in sorted(trivial.items(), key=str):
        out.append(Obligation(f"{K.unit}/dependence/kernel{kid}.{wname}<-{rname}{list(offs)}:{why.replace(' ', '_')}" + sfx,
                              ("C15",), BoolSym.const(True), [], kind="frame-log",
                              note=f"{n} call(s): {why}"))
    return out


def definedness_obligations(K: SymK, path_facts):
    """q != 0 for every non-constant denominator met on this path, under the facts known at the
    division (IEEE would give inf/nan silently; over the reals the value would be undefined)."""
    out = []
    for i, (k, (q, facts_then)) in enumerate(sorted(ctx.ST.denoms.items(), key=lambda kv: str(kv[1][0]))):
        goal = ~BoolSym.cmp("eq", q)
        # facts assumed later on the path only narrow the inputs; the division must be defined for
        # every input that reaches it, i.e. under the facts at that point plus the unit's requires
        out.append(Obligation(f"{K.unit}/defined/denominator[{str(q)[:60]}]" + (f"[{cfg_str(K.cfg)}]" if K.cfg else "") + K.path,
                              K.props, goal, list(facts_then), kind="defined",
                              note=f"denominator {q}"))
    return out


# --------------------------------------------------------------------------------------------
# running a unit symbolically and discharging its obligations
# --------------------------------------------------------------------------------------------
def discharge(o: Obligation, timeout_ms=None, use_cvc5=True):
    t0 = time.time()
    g = o.goal
    if g.is_const():
        if g.value():
            back = {"frame-log": "frame-log", "raises": "execution"}.get(o.kind, "normaliser")
            o.result = smt.Result("proved", back, time.time() - t0, detail=o.note)
        else:
            # goal is literally False: refuted iff the assumptions are satisfiable
            r = smt.prove(BoolSym.const(False), o.assumptions, timeout_ms=timeout_ms, use_cvc5=use_cvc5)
            o.result = r
        return o.result
    o.result = smt.prove(g, o.assumptions, timeout_ms=timeout_ms, use_cvc5=use_cvc5)
    return o.result


def run_unit_sym(name, cfg, timeout_ms=None, want_props=None):
    """-> list of result dicts (picklable).  If the fully symbolic run leaves the engine's subset (e.g. the code
    under contract loops over blocks of a symbolic extent), the unit is run once more with CONCRETE grid extents
    (bounded shapes, all values): refutations found there are genuine counterexamples and are reported; proofs found
    there are bounded and are NOT reported, so the unit stays undecided unless something is refuted."""
    results, meta = _run_unit_sym(name, cfg, timeout_ms, want_props, concrete_ext=False)
    if any(r["kind"] == "engine" and r["detail"].startswith("Unsupported") for r in results):
        try:
            more, _ = _run_unit_sym(name, cfg, timeout_ms, want_props, concrete_ext=True)
        except BaseException as e:  # noqa: BLE001
            if type(e).__name__ == "_UnitTimeout":
                raise
            more = []
        results += [r for r in more if r["verdict"] == "refuted"]
    return results, meta


def _run_unit_sym(name, cfg, timeout_ms=None, want_props=None, concrete_ext=False):
    u = UNITS[name]
    results = []
    t_start = time.time()
    paths = 0
    functions = set()
    state = {}

    def body():
        K = SymK(name, u["props"], cfg)
        K.concrete_ext = concrete_ext
        K.concrete_exts = {}
        state["K"] = K
        u["fn"](K, **cfg)
        return K

    try:
        for taken, facts, K, exc in ctx.explore(body):
            paths += 1
            K = K or state["K"]
            K.path = ("#" + "".join("T" if t else "F" for t in taken)) if taken else ""
            obs = list(K.obligations)
            if exc is not None:
                tb = "".join(traceback.format_exception_only(type(exc), exc)).strip()
                obs.append(Obligation(K._name("no_exception"), u["props"], BoolSym.const(False), facts,
                                      kind="exception", note=f"real code raised on this path: {tb}"))
            # obligations created before a later fork carry stale names: rename uniformly
            for o in obs:
                if K.path and not o.name.endswith(K.path):
                    o.name += K.path
            obs += dependence_obligations(K, ctx.ST.kernel_calls, facts)
            obs += definedness_obligations(K, facts)
            functions |= set(K.functions)
            for o in obs:
                if want_props and not (set(o.props) & set(want_props)):
                    continue
                # once a unit is refuted several times over, do not spend long solver budgets on its other clauses
                hurry = sum(1 for x in results if x["verdict"] == "refuted") >= 3
                r = discharge(o, 2000 if hurry else timeout_ms, use_cvc5=not hurry)
                model = r.model
                if concrete_ext and isinstance(model, dict):
                    model = dict(K.concrete_exts, **model)  # the replay needs the extents of this bounded run
                results.append(dict(name=o.name, props=list(o.props), kind=o.kind, verdict=r.verdict,
                                    backend=r.backend, seconds=round(r.seconds, 4), model=model,
                                    detail=(("[bounded-shape run, extents %s] " % K.concrete_exts) if concrete_ext else "")
                                    + (r.detail or o.note)[:2000], unit=name, cfg=cfg,
                                    goal=str(o.goal)[:600] if r.verdict != "proved" else ""))
    except Unsupported as e:
        results.append(dict(name=f"{name}/engine[{cfg_str(cfg)}]", props=list(u["props"]), kind="engine",
                            verdict="error", backend="svx", seconds=0.0, model=None,
                            detail="Unsupported: " + str(e) + "\n" + traceback.format_exc()[-1500:], unit=name, cfg=cfg, goal=""))
    except Exception as e:  # a bug in the engine or the contract itself: never a verdict
        results.append(dict(name=f"{name}/engine[{cfg_str(cfg)}]", props=list(u["props"]), kind="engine",
                            verdict="error", backend="svx", seconds=0.0, model=None,
                            detail=f"{type(e).__name__}: {e}\n" + traceback.format_exc()[-2500:], unit=name, cfg=cfg, goal=""))
    meta = dict(unit=name, cfg=cfg, paths=paths, wall=round(time.time() - t_start, 3),
                functions=sorted(functions))
    return results, meta
