"""svx.ctx -- execution context: path facts, decisions, path forking, obligations.

The real SophT code is run by CPython on symbolic operands.  Whenever Python needs the truth value
of a symbolic condition (`if`, `min`, slice clipping, box membership) `branch`/`decide` is asked:
  decide(b) -> True / False if the facts entail b / not b, else None
  branch(b) -> decide(b), and when open: follow the decision vector of the current exploration,
               record the taken side as a path fact (both sides get explored by `explore`).
"""
from __future__ import annotations

import time

import z3

from . import smt
from .sym import BoolSym, Sym, Unsupported, as_bool

import os as _os
_REPO = _os.path.realpath(_os.environ.get("SVX_REPO", "/repo")) + "/"


class State:
    def __init__(self):
        self.facts: list[BoolSym] = []
        self.solver = None
        self.memo: dict = {}
        self.decisions: list[bool] = []
        self.prefix: list[bool] = []
        self.read_memo: dict = {}
        self.z3_calls = 0
        self.z3_s = 0.0
        self.atoms_axiomatised: set = set()
        self.kernel_calls: list = []
        self.obligations: list = []
        self.denoms: dict = {}
        self.nonzero_conditions = False


ST = State()
RESET_HOOKS: list = []  # deterministic naming: counters restart with every path


def reset(facts=()):
    ST.facts = []
    ST.solver = z3.Solver()
    ST.solver.set("timeout", 3000)
    ST.memo = {}
    ST.read_memo = {}
    ST.decisions = []
    ST.atoms_axiomatised = set()
    ST.kernel_calls = []
    ST.obligations = []
    ST.denoms = {}
    ST.nonzero_conditions = False
    for h in RESET_HOOKS:
        h()
    for f in facts:
        assume(f)


def assume(b):
    b = as_bool(b)
    if b.is_const():
        if not b.value():
            ST.facts.append(b)
            ST.solver.add(z3.BoolVal(False))
        return
    ST.facts.append(b)
    _axiomatise([b])
    ST.solver.add(smt.bool_z3(b))
    ST.memo = {}


def _axiomatise(formulas):
    atoms = smt.all_atoms(formulas) - ST.atoms_axiomatised
    if atoms:
        opaque = {a for a in atoms if smt.ATOMS[a].kind in ("sqrt", "sin", "cos", "pi")}
        if opaque:
            for ax in smt.axioms_for(opaque):
                ST.solver.add(ax)
        ST.atoms_axiomatised |= atoms


def facts():
    return list(ST.facts)


def decide(b) -> bool | None:
    b = as_bool(b)
    if b.is_const():
        return b.value()
    k = b.key()
    r = ST.memo.get(k, 0)
    if r != 0:
        return r
    if ST.solver is None:
        reset()
    _axiomatise([b])
    t0 = time.time()
    zb = smt.bool_z3(b)
    r = None
    if ST.solver.check(z3.Not(zb)) == z3.unsat:
        r = True
    elif ST.solver.check(zb) == z3.unsat:
        r = False
    ST.z3_calls += 2
    ST.z3_s += time.time() - t0
    ST.memo[k] = r
    return r


def branch(b) -> bool:
    d = decide(b)
    if d is not None:
        return d
    i = len(ST.decisions)
    v = ST.prefix[i] if i < len(ST.prefix) else True
    ST.decisions.append(v)
    assume(b if v else ~as_bool(b))
    return v


def unique_int_value(s: Sym):
    if ST.solver is None:
        reset()
    zs = smt.to_z3(s, "int" if s.is_int_sorted() else "real")
    if ST.solver.check() != z3.sat:
        return None
    v = ST.solver.model().eval(zs, model_completion=True)
    if ST.solver.check(zs != v) != z3.unsat:
        return None
    if z3.is_int_value(v):
        return v.as_long()
    if z3.is_rational_value(v) and v.denominator_as_long() == 1:
        return v.numerator_as_long()
    return None


def explore(fn, base_facts=(), max_paths=256):
    """Run fn() once per feasible decision vector.  Yields (decisions, facts, result-or-exception)."""
    stack = [[]]
    n = 0
    while stack:
        prefix = stack.pop()
        n += 1
        if n > max_paths:
            raise Unsupported(f"more than {max_paths} paths")
        reset(base_facts)
        ST.prefix = prefix
        try:
            res = fn()
            exc = None
        except Unsupported:
            raise
        except Exception as e:
            if not _raised_by_real_code(e):
                raise  # a bug in the engine or in a contract: never a verdict
            res, exc = None, e  # the real code raised: a behaviour of the code on this path
        taken = list(ST.decisions)
        for i in range(len(prefix), len(taken)):
            stack.append(taken[:i] + [not taken[i]])
        yield taken, list(ST.facts), res, exc


def _raised_by_real_code(e) -> bool:
    """True if the exception is behaviour of /repo's code: raised in a /repo frame, or raised by
    the engine's emulation of numpy / pystencils (ValueError, IndexError, KeyError from svx.field or
    svx.kernel) while a /repo frame was on the stack."""
    import traceback

    frames = traceback.extract_tb(e.__traceback__)
    if not frames:
        return False
    inner = frames[-1].filename
    in_repo = any(f.filename.startswith(_REPO) for f in frames)
    if isinstance(e, (TypeError, AttributeError, NameError, NotImplementedError)):
        return False  # far more likely a gap of the symbolic operand types than behaviour of the code
    if inner.startswith(_REPO):
        return True
    if in_repo and isinstance(e, (ValueError, IndexError, KeyError, ZeroDivisionError)) and (
            inner.endswith("svx/field.py") or inner.endswith("svx/kernel.py") or inner.endswith("svx/symnp.py")
            or "/site-packages/numpy/" in inner):
        return True
    return False


class scope:
    """Scoped assumptions: facts assumed inside are dropped on exit (solver push/pop; decision and
    read memos made under the stronger facts are discarded)."""

    def __enter__(self):
        if ST.solver is None:
            reset()
        self.nfacts = len(ST.facts)
        self.memo = ST.memo
        self.read_memo = ST.read_memo
        self.axiomatised = set(ST.atoms_axiomatised)
        ST.memo = dict(ST.memo)
        ST.read_memo = dict(ST.read_memo)
        ST.solver.push()
        return self

    def __exit__(self, *exc):
        ST.solver.pop()
        del ST.facts[self.nfacts:]
        ST.memo = self.memo
        ST.read_memo = self.read_memo
        ST.atoms_axiomatised = self.axiomatised
        return False
