"""svx.boot -- prepares a process for symbolic execution of /repo's sopht.

Must run before `sopht` (or `elastica`) is imported:
  * numba.njit / numba.jit become identity decorators, so @njit closures are plain Python
    (drops: numba type inference, LLVM, fastmath reassociation, cache=True);
  * pystencils.create_kernel / CreateKernelConfig become recorders (svx.kernel).
"""
import os
import sys


def _identity_decorator(*args, **kwargs):
    if len(args) == 1 and callable(args[0]) and not kwargs:
        return args[0]

    def deco(fn):
        return fn

    return deco


REPO = os.environ.get("SVX_REPO", "/repo").rstrip("/")


def _use_repo():
    """checks run against /repo's working tree; SVX_REPO points them at a scratch copy instead
    (only used when evaluating seeded changes without touching /repo)."""
    if REPO != "/repo":
        sys.path.insert(0, REPO)


def _assert_repo():
    import sopht

    assert os.path.realpath(sopht.__file__).startswith(os.path.realpath(REPO) + "/"), (sopht.__file__, REPO)


def boot_symbolic():
    if "sopht" in sys.modules or "elastica" in sys.modules:
        raise RuntimeError("svx.boot must run before sopht/elastica are imported")
    import numba

    numba.njit = _identity_decorator
    numba.jit = _identity_decorator
    numba.prange = range
    from . import kernel

    kernel.install()
    from . import symnp  # noqa: F401  (installs arithmetic on symbolic views)
    _use_repo()
    import sopht  # noqa: F401  (from /repo's working tree: editable install)

    _assert_repo()


def boot_native():
    """Real numba / pystencils 2.0 JIT.  SophT passes `default_number_float=` (pystencils 1.x),
    which 2.0 rejects; the shim renames it to `default_dtype`.  Nothing in /repo is edited."""
    import pystencils as ps

    if not getattr(ps.CreateKernelConfig, "_svx_shim", False):
        orig = ps.CreateKernelConfig

        def compat(**kw):
            if "default_number_float" in kw:
                kw["default_dtype"] = kw.pop("default_number_float")
            return orig(**kw)

        compat._svx_shim = True
        ps.CreateKernelConfig = compat
        orig_create = ps.create_kernel

        class _Lazy:
            """compile with pystencils 2.0; fall back to the numpy interpreter when 2.0 refuses"""
            def __init__(self, asg, config):
                self.asg, self.config = asg, config

            def compile(self):
                try:
                    return orig_create(self.asg, config=self.config).compile()
                except Exception as e:  # noqa: BLE001
                    from . import native, npinterp
                    native.INTERPRETED.append(f"{[str(a.lhs) for a in self.asg]}: {type(e).__name__}")
                    return npinterp.NumpyKernel(self.asg, self.config)

        ps.create_kernel = lambda asg, config=None: _Lazy(asg, config)
    _use_repo()
    import sopht  # noqa: F401

    _assert_repo()
