"""svx.smt -- translation of Sym/BoolSym to z3, axioms for opaque functions, and discharge.

Verdicts: 'proved' | 'refuted' | 'unknown'.  `unknown` is never mapped to a violation.
"""
from __future__ import annotations

import os
import subprocess
import tempfile
import time
from fractions import Fraction

import z3

from .sym import ATOMS, Atom, BoolSym, Sym, mk_atom

_FUNCS: dict = {}
_AXIOM_CACHE: dict = {}

Z3_TIMEOUT_MS = int(os.environ.get("SVX_Z3_TIMEOUT_MS", "20000"))
CVC5_TIMEOUT_MS = int(os.environ.get("SVX_CVC5_TIMEOUT_MS", "15000"))
STATS = {"z3_calls": 0, "z3_s": 0.0, "cvc5_calls": 0, "cvc5_s": 0.0, "norm_calls": 0, "norm_s": 0.0}


def _func(name, arity, in_sort, out_sort):
    key = (name, arity, in_sort, out_sort)
    f = _FUNCS.get(key)
    if f is None:
        ins = [z3.IntSort() if in_sort == "int" else z3.RealSort()] * arity
        outs = z3.IntSort() if out_sort == "int" else z3.RealSort()
        f = _FUNCS[key] = z3.Function(name, *ins, outs)
    return f


def _q(c: Fraction):
    return z3.RealVal(str(c)) if c.denominator != 1 else z3.RealVal(c.numerator)


def atom_z3(a: Atom):
    """z3 term of the atom in its own sort."""
    t = a.z3
    if t is not None:
        return t
    k = a.kind
    if k == "var":
        t = z3.Int(a.args[0]) if a.sort == "int" else z3.Real(a.args[0])
    elif k == "pi":
        t = z3.Real("pi!")
    elif k == "cell":
        idx = [to_z3(Sym._from_key(x), "int") for x in a.args[1]]
        t = _func(a.args[0], len(idx), "int", a.sort)(*idx)
    elif k == "inv":
        t = 1 / to_z3(Sym._from_key(a.args[0]), "real")
    elif k == "ite":
        c = bool_z3(BoolSym._from_key(a.args[0]))
        want = a.sort
        t = z3.If(c, to_z3(Sym._from_key(a.args[1]), want), to_z3(Sym._from_key(a.args[2]), want))
    elif k == "abs":
        x = to_z3(Sym._from_key(a.args[0]), "real")
        t = z3.If(x >= 0, x, -x)
    elif k == "floor":
        t = z3.ToInt(to_z3(Sym._from_key(a.args[0]), "real"))
    elif k == "sqrt":
        t = z3.Real(f"sqrt!{a.id}")
    elif k in ("sin", "cos", "log", "exp"):
        t = _func(k + "!", 1, "real", "real")(to_z3(Sym._from_key(a.args[0]), "real"))
    elif k == "fn":
        args = [to_z3(Sym._from_key(x), "real") for x in a.args[1]]
        t = _func(a.args[0], len(args), "real", a.sort)(*args) if args else (
            z3.Int(a.args[0]) if a.sort == "int" else z3.Real(a.args[0]))
    else:
        raise ValueError(f"unknown atom kind {k}")
    a.z3 = t
    return t


def to_z3(s: Sym, want="real"):
    cache = s._z3
    if cache is not None and want in cache:
        return cache[want]
    if cache is None:
        cache = s._z3 = {}
    int_ok = s.is_int_sorted()
    if not s.p:
        t = z3.IntVal(0) if (int_ok and want == "int") else z3.RealVal(0)
        cache[want] = t
        return t
    terms = []
    for m, c in sorted(s.p.items()):
        fs = []
        den = []
        for aid, e in m:
            a = ATOMS[aid]
            t = atom_z3(a)
            if not int_ok and a.sort == "int":
                t = z3.ToReal(t)
            tgt = fs if e > 0 else den
            for _ in range(abs(e)):
                tgt.append(t)
        if int_ok:
            term = z3.IntVal(c.numerator)
        else:
            term = _q(c)
        if fs:
            prod = fs[0]
            for f in fs[1:]:
                prod = prod * f
            if c == 1:
                term = prod
            elif c == -1:
                term = -prod
            else:
                term = term * prod
        if den:
            d = den[0]
            for f in den[1:]:
                d = d * f
            term = term / d
        terms.append(term)
    t = terms[0]
    for u in terms[1:]:
        t = t + u
    if int_ok and want == "real":
        t = z3.ToReal(t)
    elif not int_ok and want == "int":
        raise ValueError(f"integer term required, got {s}")
    cache[want] = t
    return t


def bool_z3(b: BoolSym):
    t = b._z3
    if t is not None:
        return t
    k = b.k
    if k[0] == "const":
        t = z3.BoolVal(k[1])
    elif k[0] in ("lt", "le", "eq"):
        s = Sym._from_key(k[1])
        if s.is_int_sorted():
            x, zero = to_z3(s, "int"), z3.IntVal(0)
        else:
            x, zero = to_z3(s, "real"), z3.RealVal(0)
        t = x < zero if k[0] == "lt" else x <= zero if k[0] == "le" else x == zero
    elif k[0] == "not":
        t = z3.Not(bool_z3(BoolSym(k[1])))
    elif k[0] == "and":
        t = z3.And(*[bool_z3(BoolSym(x)) for x in k[1]])
    elif k[0] == "or":
        t = z3.Or(*[bool_z3(BoolSym(x)) for x in k[1]])
    else:
        raise ValueError(k[0])
    b._z3 = t
    return t


# --------------------------------------------------------------------------------------------
# axioms for opaque atoms (instantiated per atom; trusted lemma M6 and sqrt's definition)
# --------------------------------------------------------------------------------------------
def _collect_atoms(ids, out):
    for aid in ids:
        if aid in out:
            continue
        out.add(aid)
        a = ATOMS[aid]
        if a.kind in ("var", "pi"):
            continue
        if a.kind == "cell":
            for x in a.args[1]:
                _collect_atoms(Sym._from_key(x).atoms(), out)
        elif a.kind == "ite":
            _collect_atoms(BoolSym._from_key(a.args[0]).atoms(), out)
            _collect_atoms(Sym._from_key(a.args[1]).atoms(), out)
            _collect_atoms(Sym._from_key(a.args[2]).atoms(), out)
        elif a.kind == "fn":
            for x in a.args[1]:
                _collect_atoms(Sym._from_key(x).atoms(), out)
        else:
            _collect_atoms(Sym._from_key(a.args[0]).atoms(), out)


def all_atoms(formulas) -> set:
    out: set = set()
    for f in formulas:
        _collect_atoms(f.atoms(), out)
    return out


def axioms_for(atom_ids) -> list:
    """z3 axioms for the opaque atoms among atom_ids.  Each axiom is a true statement about the
    real function (sqrt's definition on its domain, sin/cos range and quadrant signs, pi bounds)."""
    ax = []
    pi_needed = False
    trig_args = {}
    for aid in sorted(atom_ids):
        a = ATOMS[aid]
        if a.kind == "pi":
            pi_needed = True
        elif a.kind == "sqrt":
            t = atom_z3(a)
            x = to_z3(Sym._from_key(a.args[0]), "real")
            ax.append(z3.Implies(x >= 0, z3.And(t >= 0, t * t == x)))
        elif a.kind in ("sin", "cos"):
            pi_needed = True
            trig_args.setdefault(a.args[0], set()).add(a.kind)
        elif a.kind == "floor":
            pass  # ToInt is interpreted
    if pi_needed:
        pi = atom_z3(mk_atom("pi", (), "real"))
        ax.append(z3.And(pi > z3.RealVal("3.1415926535"), pi < z3.RealVal("3.1415926536")))
    sinf = _func("sin!", 1, "real", "real")
    cosf = _func("cos!", 1, "real", "real")
    for argk in trig_args:
        x = to_z3(Sym._from_key(argk), "real")
        pi = atom_z3(mk_atom("pi", (), "real"))
        s, c = sinf(x), cosf(x)
        ax += [
            s * s + c * c == 1, s >= -1, s <= 1, c >= -1, c <= 1,
            z3.Implies(z3.And(x >= 0, x <= pi), s >= 0),
            z3.Implies(z3.And(x >= -pi, x <= 0), s <= 0),
            z3.Implies(z3.And(x >= -pi / 2, x <= pi / 2), c >= 0),
            z3.Implies(z3.And(x >= pi / 2, x <= 3 * pi / 2), c <= 0),
            z3.Implies(x == 0, z3.And(s == 0, c == 1)),
            z3.Implies(x == pi / 2, z3.And(s == 1, c == 0)),
            z3.Implies(x == pi, z3.And(s == 0, c == -1)),
            z3.Implies(x == -pi / 2, z3.And(s == -1, c == 0)),
            z3.Implies(x == -pi, z3.And(s == 0, c == -1)),
            z3.Implies(x > 0, s < x), z3.Implies(x < 0, s > x),
            # 1-Lipschitz against the zeros at +-pi:  |sin x - sin(+-pi)| <= |x -+ pi|
            s <= z3.If(x <= pi, pi - x, x - pi), s >= -z3.If(x >= -pi, x + pi, -x - pi),
            s >= -z3.If(x <= pi, pi - x, x - pi), s <= z3.If(x >= -pi, x + pi, -x - pi),
        ]
    # pairwise: 1-Lipschitz, oddness of sin, evenness of cos
    keys = sorted(trig_args)
    for i in range(len(keys)):
        for j in range(i + 1, len(keys)):
            x = to_z3(Sym._from_key(keys[i]), "real")
            y = to_z3(Sym._from_key(keys[j]), "real")
            d = z3.If(x >= y, x - y, y - x)
            ax += [sinf(x) - sinf(y) <= d, sinf(y) - sinf(x) <= d, cosf(x) - cosf(y) <= d, cosf(y) - cosf(x) <= d,
                   z3.Implies(x + y == 0, z3.And(sinf(x) + sinf(y) == 0, cosf(x) == cosf(y)))]
    return ax


# --------------------------------------------------------------------------------------------
# discharge
# --------------------------------------------------------------------------------------------
class Result:
    __slots__ = ("verdict", "backend", "seconds", "model", "detail")

    def __init__(self, verdict, backend, seconds, model=None, detail=""):
        self.verdict = verdict
        self.backend = backend
        self.seconds = seconds
        self.model = model
        self.detail = detail

    def __repr__(self):
        return f"<{self.verdict} by {self.backend} in {self.seconds:.3f}s {self.detail}>"


def _model_dict(model, atom_ids):
    out = {}
    for aid in sorted(atom_ids):
        a = ATOMS[aid]
        if a.kind in ("var", "cell", "fn", "pi", "sqrt"):
            try:
                v = model.eval(atom_z3(a), model_completion=True)
                out[repr(a)] = _val(v)
            except z3.Z3Exception:
                pass
    return out


def _val(v):
    if z3.is_int_value(v):
        return v.as_long()
    if z3.is_rational_value(v):
        return str(Fraction(v.numerator_as_long(), v.denominator_as_long()))
    if z3.is_algebraic_value(v):
        return v.approx(12).as_decimal(12)
    return str(v)


def prove(goal: BoolSym, assumptions=(), extra_axioms=(), timeout_ms=None, use_cvc5=True) -> Result:
    """Decide  (AND assumptions) => goal."""
    t0 = time.time()
    if goal.is_const() and goal.value():
        return Result("proved", "normaliser", 0.0)
    # pure ring identity: goal is an equality (or conjunction of them) whose residual vanished
    # already at construction (BoolSym.cmp folds constants), so reaching here means non-trivial.
    atoms = all_atoms([goal, *assumptions])
    if goal.k[0] == "eq":
        w = poly_witness(goal, assumptions)
        if w is not None:
            dt = time.time() - t0
            STATS["norm_calls"] += 1
            STATS["norm_s"] += dt
            return Result("refuted", "normaliser", dt, model=w,
                          detail="non-zero residual; exact rational witness satisfies all assumptions")
        if any(ATOMS[a].kind in ("sqrt", "sin", "cos", "log", "exp", "abs", "floor") for a in atoms):
            w = numeric_witness(goal, assumptions)
            if w is not None:
                dt = time.time() - t0
                STATS["norm_calls"] += 1
                STATS["norm_s"] += dt
                return Result("refuted", "numeric-witness", dt, model=w,
                              detail="residual far from zero (|r| > 1e-12 at 40 digits) at rational inputs satisfying all assumptions")
    s = z3.Solver()
    s.set("timeout", timeout_ms or Z3_TIMEOUT_MS)
    for a in assumptions:
        s.add(bool_z3(a))
    for ax in axioms_for(atoms):
        s.add(ax)
    for ax in extra_axioms:
        s.add(ax)
    s.add(z3.Not(bool_z3(goal)))
    STATS["z3_calls"] += 1
    r = s.check()
    dt = time.time() - t0
    STATS["z3_s"] += dt
    if r == z3.unsat:
        return Result("proved", "z3", dt)
    if r == z3.sat:
        opaque = sorted({ATOMS[a].kind for a in atoms if ATOMS[a].kind in ("sin", "cos", "log", "exp", "fn")})
        if opaque:
            # the model interprets an axiomatised function freely: a candidate, not a counterexample
            return Result("unknown", "z3", dt, model=_model_dict(s.model(), atoms),
                          detail="sat modulo the axioms of " + ",".join(opaque) + " (candidate model only)")
        model = _model_dict(s.model(), atoms)
        # prefer a counterexample on a small grid (native replay allocates the arrays)
        ints = [atom_z3(ATOMS[a]) for a in atoms if ATOMS[a].kind == "var" and ATOMS[a].sort == "int"]
        if ints:
            for bound in (12, 40):
                s.push()
                s.set("timeout", 5000)
                for v in ints:
                    s.add(v <= bound, v >= -bound)
                if s.check() == z3.sat:
                    model = _model_dict(s.model(), atoms)
                    for v in ints:
                        pass
                    small_bounds = [v <= bound for v in ints] + [v >= -bound for v in ints]
                    s.pop()
                    for c_ in small_bounds:
                        s.add(c_)
                    break
                s.pop()
        # for inequalities, look for a counterexample with a comfortable margin (robust native replay)
        if goal.k[0] in ("le", "lt"):
            res = to_z3(Sym._from_key(goal.k[1]), "real")
            for margin in (1, z3.RealVal("1/100")):
                s.push()
                s.set("timeout", 5000)
                s.add(res >= margin)
                if s.check() == z3.sat:
                    model = _model_dict(s.model(), atoms)
                    model["_margin"] = str(margin)
                    s.pop()
                    break
                s.pop()
        return Result("refuted", "z3", dt, model=model)
    detail = s.reason_unknown()
    if use_cvc5:
        r2 = _cvc5(s.to_smt2())
        if r2 is not None:
            verdict, secs = r2
            return Result(verdict, "cvc5", dt + secs, detail="z3: " + detail)
    return Result("unknown", "z3", dt, detail=detail)


def check_sat(formulas, timeout_ms=5000):
    """-> 'sat' | 'unsat' | 'unknown' for the conjunction (vacuity guards)."""
    s = z3.Solver()
    s.set("timeout", timeout_ms)
    for f in formulas:
        s.add(bool_z3(f))
    for ax in axioms_for(all_atoms(formulas)):
        s.add(ax)
    return str(s.check())


def _cvc5(smt2: str):
    exe = "/usr/bin/cvc5"
    if not os.path.exists(exe):
        return None
    t0 = time.time()
    STATS["cvc5_calls"] += 1
    with tempfile.NamedTemporaryFile("w", suffix=".smt2", delete=False, dir=os.environ.get("SVX_WORK", None)) as f:
        f.write("(set-logic ALL)\n" + smt2)
        path = f.name
    try:
        out = subprocess.run([exe, "--lang=smt2", f"--tlimit={CVC5_TIMEOUT_MS}", path],
                             capture_output=True, text=True, timeout=CVC5_TIMEOUT_MS / 1000 + 10).stdout
    except subprocess.TimeoutExpired:
        out = ""
    finally:
        os.unlink(path)
    dt = time.time() - t0
    STATS["cvc5_s"] += dt
    first = out.strip().splitlines()[0] if out.strip() else ""
    if first == "unsat":
        return "proved", dt
    if first == "sat":
        return "refuted", dt
    return None


# --------------------------------------------------------------------------------------------
# exact evaluation and polynomial-residual witnesses (normaliser refutation, DESIGN 3.4)
# --------------------------------------------------------------------------------------------
class NotEvaluable(Exception):
    pass


def eval_sym(s: Sym, env) -> Fraction:
    """exact value of s; env(atom) -> Fraction for var / cell atoms (cell: called with evaluated index)."""
    tot = Fraction(0)
    for m, c in s.p.items():
        t = c
        for aid, e in m:
            v = eval_atom(ATOMS[aid], env)
            if e < 0 and v == 0:
                raise NotEvaluable("division by zero")
            t = t * v**e
        tot += t
    return tot


def eval_atom(a: Atom, env) -> Fraction:
    k = a.kind
    if k == "var":
        return env("var", a.args[0], a.sort)
    if k == "cell":
        idx = tuple(int(eval_sym(Sym._from_key(x), env)) for x in a.args[1])
        return env("cell", (a.args[0], idx), a.sort)
    if k == "ite":
        return eval_sym(Sym._from_key(a.args[1] if eval_bool(BoolSym._from_key(a.args[0]), env) else a.args[2]), env)
    if k == "inv":
        v = eval_sym(Sym._from_key(a.args[0]), env)
        if v == 0:
            raise NotEvaluable("division by zero")
        return 1 / v
    if k == "abs":
        return abs(eval_sym(Sym._from_key(a.args[0]), env))
    if k == "floor":
        import math
        return Fraction(math.floor(eval_sym(Sym._from_key(a.args[0]), env)))
    raise NotEvaluable(k)


def eval_bool(b: BoolSym, env) -> bool:
    k = b.k
    if k[0] == "const":
        return k[1]
    if k[0] in ("lt", "le", "eq"):
        v = eval_sym(Sym._from_key(k[1]), env)
        return v < 0 if k[0] == "lt" else v <= 0 if k[0] == "le" else v == 0
    if k[0] == "not":
        return not eval_bool(BoolSym(k[1]), env)
    if k[0] == "and":
        return all(eval_bool(BoolSym(x), env) for x in k[1])
    return any(eval_bool(BoolSym(x), env) for x in k[1])


def _ATOM_LOOKUP(kind, key):
    from .sym import _ATOM_INDEX
    if kind == "var":
        for sort_key in ((kind, (key,)),):
            a = _ATOM_INDEX.get(sort_key)
            if a is not None:
                return a.id
        return None
    name, idx = key
    a = _ATOM_INDEX.get(("cell", (name, tuple(Sym.const(i).key() for i in idx))))
    return a.id if a is not None else None


_CIRCLE = [(Fraction(3, 5), Fraction(4, 5)), (Fraction(-4, 5), Fraction(3, 5)), (Fraction(5, 13), Fraction(-12, 13)),
           (Fraction(-8, 17), Fraction(-15, 17)), (Fraction(1), Fraction(0)), (Fraction(0), Fraction(-1)), (Fraction(20, 29), Fraction(21, 29))]


def unit_circle_pairs(assumptions):
    """pairs of atoms (x, y) constrained by x^2 + y^2 == 1 (unit vectors): sampled from rational points of the circle"""
    out = []
    for f in assumptions:
        if f.k[0] != "eq":
            continue
        p = Sym._from_key(f.k[1])
        sq = [m for m in p.p if len(m) == 1 and m[0][1] == 2]
        if len(p.p) == 3 and len(sq) == 2 and () in p.p and p.p[sq[0]] == p.p[sq[1]] == -p.p[()]:
            out.append((sq[0][0][0], sq[1][0][0]))
    return out


def simple_bounds(assumptions):
    """one-variable bounds among the assumptions (0 <= s < 1, dx > 0, ...): they guide witness sampling"""
    lo, hi = {}, {}

    def scan(b):
        k = b.k
        if k[0] == "and":
            for x in k[1]:
                scan(BoolSym(x))
        elif k[0] in ("lt", "le"):
            aff = Sym._from_key(k[1]).as_affine()
            if aff is None:
                return
            c0, lin = aff
            if len(lin) != 1:
                return
            (aid, co), = lin.items()
            if ATOMS[aid].sort != "real" or ATOMS[aid].kind not in ("var", "cell"):
                return
            bound = -c0 / co  # co*x + c0 (<|<=) 0
            (hi if co > 0 else lo)[aid] = bound

    for f in assumptions:
        scan(f)
    return lo, hi


def _atom_env_key(aid):
    a_ = ATOMS[aid]
    if a_.kind == "var":
        return ("var", a_.args[0])
    if a_.kind == "cell":
        try:
            return ("cell", (a_.args[0], tuple(int(Sym._from_key(x).const_value()) for x in a_.args[1])))
        except Exception:
            return None
    return None


def poly_witness(goal: BoolSym, assumptions, tries=40, seed=0):
    """For goal `residual == 0` with a non-zero residual over independent atoms: an exact rational
    assignment satisfying the assumptions under which the residual is non-zero, or None."""
    import random

    if goal.k[0] != "eq":
        return None
    res = Sym._from_key(goal.k[1])
    atoms = all_atoms([goal, *assumptions])
    if any(ATOMS[a].kind not in ("var", "cell", "ite", "inv", "abs", "floor") for a in atoms):
        return None
    int_vars = [ATOMS[a] for a in atoms if ATOMS[a].kind == "var" and ATOMS[a].sort == "int"]
    s = z3.Solver()
    s.set("timeout", 5000)
    for f in assumptions:
        if all(ATOMS[a].kind == "var" and ATOMS[a].sort == "int" for a in all_atoms([f])):
            s.add(bool_z3(f))
    rng = random.Random(seed)
    # real symbols constrained by the assumptions (e.g. c^2 + s^2 == 1, 0 <= ratio <= 1) take their values from a
    # solver model of the assumptions; everything else is sampled
    pinned = {}
    real_constrained = set()
    lo0, hi0 = simple_bounds(assumptions)
    easy = set(lo0) | set(hi0) | {a for pr in unit_circle_pairs(assumptions) for a in pr}
    for f in assumptions:
        ids = all_atoms([f])
        if len(ids) <= 2 and all(a in easy for a in ids):
            continue  # one-variable bounds and unit-circle pairs are sampled directly (a solver model tends to sit on a
            # boundary such as ratio = 0, where a non-zero residual can vanish by accident)
        if any(ATOMS[a].sort == "real" for a in ids):
            real_constrained |= {a for a in ids if ATOMS[a].kind in ("var", "cell")}
    if real_constrained:
        s2 = z3.Solver()
        s2.set("timeout", 3000)
        for f in assumptions:
            s2.add(bool_z3(f))
        if s2.check() == z3.sat:
            mdl = s2.model()
            for a in real_constrained:
                v = mdl.eval(atom_z3(ATOMS[a]), model_completion=True)
                if z3.is_rational_value(v):
                    pinned[a] = Fraction(v.numerator_as_long(), v.denominator_as_long())
                elif z3.is_int_value(v):
                    pinned[a] = Fraction(v.as_long())
    for bound in (6, 12, 40, None):
        s.push()
        if bound is not None:
            for v in int_vars:
                s.add(atom_z3(v) <= bound, atom_z3(v) >= -bound)
        ok = s.check() == z3.sat
        model = s.model() if ok else None
        s.pop()
        if not ok:
            continue
        ints = {v.args[0]: model.eval(atom_z3(v), model_completion=True).as_long() for v in int_vars}
        circles = unit_circle_pairs(assumptions)
        lo, hi = simple_bounds(assumptions)
        for _ in range(tries):
            vals = {}
            fixed = set()
            for (ax, ay) in circles:
                cx, cy = rng.choice(_CIRCLE)
                for aid, v in ((ax, cx), (ay, cy)):
                    ek = _atom_env_key(aid)
                    if ek is not None:
                        vals[ek] = v
                        fixed.add(ek)

            def env(kind, key, sort, vals=vals):
                if kind == "var" and sort == "int":
                    return Fraction(ints[key])
                k = (kind, key)
                if k not in vals and pinned:
                    pa = _ATOM_LOOKUP(kind, key)
                    if pa is not None and pa in pinned:
                        vals[k] = pinned[pa]
                if k not in vals:
                    aid = _ATOM_LOOKUP(kind, key)
                    a, b = lo.get(aid), hi.get(aid)
                    if a is not None and b is not None and b > a:
                        vals[k] = a + (b - a) * Fraction(rng.randint(1, 12), 13)
                        fixed.add(k)
                    elif a is not None:
                        vals[k] = a + Fraction(rng.randint(1, 9), rng.choice((1, 2, 3)))
                        fixed.add(k)
                    elif b is not None:
                        vals[k] = b - Fraction(rng.randint(1, 9), rng.choice((1, 2, 3)))
                        fixed.add(k)
                    else:
                        vals[k] = Fraction(rng.randint(-6, 6), rng.choice((1, 1, 2, 3))) if rng.random() < 0.8 else Fraction(rng.randint(1, 9))
                return vals[k]

            try:
                if not all(eval_bool(f, env) for f in assumptions):
                    # retry with positive values (typical preconditions: dx, nu, ... > 0)
                    for k in list(vals):
                        if k not in fixed:
                            vals[k] = abs(vals[k]) + Fraction(1, 3)
                    if not all(eval_bool(f, env) for f in assumptions):
                        continue
                r = eval_sym(res, env)
            except NotEvaluable:
                continue
            if r != 0:
                out = dict(ints)
                for (kind, key), v in vals.items():
                    out[key if kind == "var" else f"{key[0]}[{', '.join(map(str, key[1]))}]"] = str(v)
                out["_residual"] = str(r)
                return out
    return None


# --------------------------------------------------------------------------------------------
# high-precision numeric witnesses for equalities over sqrt / sin / cos / log / abs / floor / ite
# --------------------------------------------------------------------------------------------
def _mp_eval_sym(s: Sym, env, mp):
    tot = mp.mpf(0)
    for m, c in s.p.items():
        t = mp.mpf(c.numerator) / mp.mpf(c.denominator)
        for aid, e in m:
            v = _mp_eval_atom(ATOMS[aid], env, mp)
            if e < 0 and v == 0:
                raise NotEvaluable("division by zero")
            t = t * v ** e
        tot += t
    return tot


def _mp_eval_atom(a: Atom, env, mp):
    k = a.kind
    if k == "var":
        f = env("var", a.args[0], a.sort)
        return mp.mpf(f.numerator) / mp.mpf(f.denominator)
    if k == "pi":
        return mp.pi
    if k == "cell":
        idx = tuple(int(mp.nint(_mp_eval_sym(Sym._from_key(x), env, mp))) for x in a.args[1])
        f = env("cell", (a.args[0], idx), a.sort)
        return mp.mpf(f.numerator) / mp.mpf(f.denominator)
    if k == "ite":
        c = _mp_eval_bool(BoolSym._from_key(a.args[0]), env, mp)
        return _mp_eval_sym(Sym._from_key(a.args[1] if c else a.args[2]), env, mp)
    x = _mp_eval_sym(Sym._from_key(a.args[0]), env, mp) if k != "fn" else None
    if k == "inv":
        if x == 0:
            raise NotEvaluable("division by zero")
        return 1 / x
    if k == "abs":
        return abs(x)
    if k == "floor":
        return mp.floor(x)
    if k == "sqrt":
        if x < 0:
            raise NotEvaluable("sqrt of a negative number")
        return mp.sqrt(x)
    if k == "sin":
        return mp.sin(x)
    if k == "cos":
        return mp.cos(x)
    if k == "log":
        if x <= 0:
            raise NotEvaluable("log of a non-positive number")
        return mp.log(x)
    if k == "exp":
        return mp.exp(x)
    raise NotEvaluable(k)


def _mp_eval_bool(b: BoolSym, env, mp, margin=None):
    k = b.k
    if k[0] == "const":
        return k[1]
    if k[0] in ("lt", "le", "eq"):
        v = _mp_eval_sym(Sym._from_key(k[1]), env, mp)
        if k[0] == "eq":
            return abs(v) < mp.mpf(10) ** (-30)
        if abs(v) < mp.mpf(10) ** (-25):
            raise NotEvaluable("comparison too close to call")
        return v < 0
    if k[0] == "not":
        return not _mp_eval_bool(BoolSym(k[1]), env, mp)
    if k[0] == "and":
        return all(_mp_eval_bool(BoolSym(x), env, mp) for x in k[1])
    return any(_mp_eval_bool(BoolSym(x), env, mp) for x in k[1])


def numeric_witness(goal: BoolSym, assumptions, tries=60, seed=1):
    """40-digit evaluation at random rational inputs satisfying the assumptions: a residual that is
    far from zero there refutes the equality (exactness of the inputs; 40 digits vs a 1e-12 threshold)."""
    import random

    try:
        import mpmath
    except ImportError:
        return None
    if goal.k[0] != "eq":
        return None
    mp = mpmath.mp.clone()
    mp.dps = 40
    res = Sym._from_key(goal.k[1])
    atoms = all_atoms([goal, *assumptions])
    if any(ATOMS[a].kind == "fn" for a in atoms):
        return None
    int_vars = [ATOMS[a] for a in atoms if ATOMS[a].kind == "var" and ATOMS[a].sort == "int"]
    s = z3.Solver()
    s.set("timeout", 5000)
    for f in assumptions:
        if all(ATOMS[a].kind == "var" and ATOMS[a].sort == "int" for a in all_atoms([f])):
            s.add(bool_z3(f))
    for v in int_vars:
        s.add(atom_z3(v) <= 12, atom_z3(v) >= -12)
    if s.check() != z3.sat:
        return None
    model = s.model()
    ints = {v.args[0]: model.eval(atom_z3(v), model_completion=True).as_long() for v in int_vars}
    rng = random.Random(seed)
    lo, hi = simple_bounds(assumptions)
    circles = unit_circle_pairs(assumptions)
    for t in range(tries):
        vals = {}
        for (ax, ay) in circles:
            cx, cy = rng.choice(_CIRCLE)
            for aid, v in ((ax, cx), (ay, cy)):
                ek = _atom_env_key(aid)
                if ek is not None:
                    vals[ek] = v
        positive = t % 2 == 1
        if t % 6 == 1 and int_vars:
            # another integer model: greedily steer every integer symbol to a random value (keeps markers, cells
            # and extents from coinciding by accident, which could hide a non-zero residual)
            s.push()
            for v in int_vars:
                s.push()
                s.add(atom_z3(v) == rng.randint(0, 9))
                if s.check() != z3.sat:
                    s.pop()
                    continue
                # keep the constraint: merge this frame into the outer one by leaving it pushed
            if s.check() == z3.sat:
                model = s.model()
                ints = {v.args[0]: model.eval(atom_z3(v), model_completion=True).as_long() for v in int_vars}
            while s.num_scopes() > 0:
                s.pop()

        def env(kind, key, sort, vals=vals):
            if kind == "var" and sort == "int":
                return Fraction(ints[key])
            k = (kind, key)
            if k not in vals:
                aid = _ATOM_LOOKUP(kind, key)
                a, b = lo.get(aid), hi.get(aid)
                if a is not None and b is not None and b > a:
                    vals[k] = a + (b - a) * Fraction(rng.randint(1, 96), 97)
                elif a is not None:
                    vals[k] = a + Fraction(rng.randint(1, 40), rng.choice((7, 9, 11, 13)))
                elif b is not None:
                    vals[k] = b - Fraction(rng.randint(1, 40), rng.choice((7, 9, 11, 13)))
                else:
                    v = Fraction(rng.randint(1, 40), rng.choice((7, 9, 11, 13)))
                    vals[k] = v if (positive or rng.random() < 0.5) else -v
            return vals[k]

        try:
            if not all(_mp_eval_bool(f, env, mp) for f in assumptions):
                continue
            r = _mp_eval_sym(res, env, mp)
        except (NotEvaluable, ZeroDivisionError, ValueError):
            continue
        if abs(r) > mp.mpf(10) ** (-12):
            out = dict(ints)
            for (kind, key), v in vals.items():
                out[key if kind == "var" else f"{key[0]}[{', '.join(map(str, key[1]))}]"] = str(v)
            out["_residual"] = mpmath.nstr(r, 12)
            return out
    return None
