"""svx.smt -- translation of Sym/BoolSym to z3, axioms for opaque functions, and discharge.

Verdicts: 'proved' | 'refuted' | 'unknown'.  `unknown` is never mapped to a violation.
"""
from __future__ import annotations

import os
import subprocess
import tempfile
import time
from fractions import Fraction

import z3

from .sym import ATOMS, Atom, BoolSym, Sym, mk_atom

_FUNCS: dict = {}
_AXIOM_CACHE: dict = {}

Z3_TIMEOUT_MS = int(os.environ.get("SVX_Z3_TIMEOUT_MS", "20000"))
CVC5_TIMEOUT_MS = int(os.environ.get("SVX_CVC5_TIMEOUT_MS", "15000"))
STATS = {"z3_calls": 0, "z3_s": 0.0, "cvc5_calls": 0, "cvc5_s": 0.0, "norm_calls": 0, "norm_s": 0.0}


def _func(name, arity, in_sort, out_sort):
    key = (name, arity, in_sort, out_sort)
    f = _FUNCS.get(key)
    if f is None:
        ins = [z3.IntSort() if in_sort == "int" else z3.RealSort()] * arity
        outs = z3.IntSort() if out_sort == "int" else z3.RealSort()
        f = _FUNCS[key] = z3.Function(name, *ins, outs)
    return f


def _q(c: Fraction):
    return z3.RealVal(str(c)) if c.denominator != 1 else z3.RealVal(c.numerator)


def atom_z3(a: Atom):
    """z3 term of the atom in its own sort."""
    t = a.z3
    if t is not None:
        return t
    k = a.kind
    if k == "var":
        t = z3.Int(a.args[0]) if a.sort == "int" else z3.Real(a.args[0])
    elif k == "pi":
        t = z3.Real("pi!")
    elif k == "cell":
        idx = [to_z3(Sym._from_key(x), "int") for x in a.args[1]]
        t = _func(a.args[0], len(idx), "int", a.sort)(*idx)
    elif k == "inv":
        t = 1 / to_z3(Sym._from_key(a.args[0]), "real")
    elif k == "ite":
        c = bool_z3(BoolSym._from_key(a.args[0]))
        want = a.sort
        t = z3.If(c, to_z3(Sym._from_key(a.args[1]), want), to_z3(Sym._from_key(a.args[2]), want))
    elif k == "abs":
        x = to_z3(Sym._from_key(a.args[0]), "real")
        t = z3.If(x >= 0, x, -x)
    elif k == "floor":
        t = z3.ToInt(to_z3(Sym._from_key(a.args[0]), "real"))
    elif k == "sqrt":
        t = z3.Real(f"sqrt!{a.id}")
    elif k in ("sin", "cos", "log", "exp"):
        t = _func(k + "!", 1, "real", "real")(to_z3(Sym._from_key(a.args[0]), "real"))
    elif k == "fn":
        args = [to_z3(Sym._from_key(x), "real") for x in a.args[1]]
        t = _func(a.args[0], len(args), "real", a.sort)(*args) if args else (
            z3.Int(a.args[0]) if a.sort == "int" else z3.Real(a.args[0]))
    else:
        raise ValueError(f"unknown atom kind {k}")
    a.z3 = t
    return t


def to_z3(s: Sym, want="real"):
    cache = s._z3
    if cache is not None and want in cache:
        return cache[want]
    if cache is None:
        cache = s._z3 = {}
    int_ok = s.is_int_sorted()
    if not s.p:
        t = z3.IntVal(0) if (int_ok and want == "int") else z3.RealVal(0)
        cache[want] = t
        return t
    terms = []
    for m, c in sorted(s.p.items()):
        fs = []
        den = []
        for aid, e in m:
            a = ATOMS[aid]
            t = atom_z3(a)
            if not int_ok and a.sort == "int":
                t = z3.ToReal(t)
            tgt = fs if e > 0 else den
            for _ in range(abs(e)):
                tgt.append(t)
        if int_ok:
            term = z3.IntVal(c.numerator)
        else:
            term = _q(c)
        if fs:
            prod = fs[0]
            for f in fs[1:]:
                prod = prod * f
            if c == 1:
                term = prod
            elif c == -1:
                term = -prod
            else:
                term = term * prod
        if den:
            d = den[0]
            for f in den[1:]:
                d = d * f
            term = term / d
        terms.append(term)
    t = terms[0]
    for u in terms[1:]:
        t = t + u
    if int_ok and want == "real":
        t = z3.ToReal(t)
    elif not int_ok and want == "int":
        raise ValueError(f"integer term required, got {s}")
    cache[want] = t
    return t


def bool_z3(b: BoolSym):
    t = b._z3
    if t is not None:
        return t
    k = b.k
    if k[0] == "const":
        t = z3.BoolVal(k[1])
    elif k[0] in ("lt", "le", "eq"):
        s = Sym._from_key(k[1])
        if s.is_int_sorted():
            x, zero = to_z3(s, "int"), z3.IntVal(0)
        else:
            x, zero = to_z3(s, "real"), z3.RealVal(0)
        t = x < zero if k[0] == "lt" else x <= zero if k[0] == "le" else x == zero
    elif k[0] == "not":
        t = z3.Not(bool_z3(BoolSym(k[1])))
    elif k[0] == "and":
        t = z3.And(*[bool_z3(BoolSym(x)) for x in k[1]])
    elif k[0] == "or":
        t = z3.Or(*[bool_z3(BoolSym(x)) for x in k[1]])
    else:
        raise ValueError(k[0])
    b._z3 = t
    return t


# --------------------------------------------------------------------------------------------
# axioms for opaque atoms (instantiated per atom; trusted lemma M6 and sqrt's definition)
# --------------------------------------------------------------------------------------------
def _collect_atoms(ids, out):
    for aid in ids:
        if aid in out:
            continue
        out.add(aid)
        a = ATOMS[aid]
        if a.kind in ("var", "pi"):
            continue
        if a.kind == "cell":
            for x in a.args[1]:
                _collect_atoms(Sym._from_key(x).atoms(), out)
        elif a.kind == "ite":
            _collect_atoms(BoolSym._from_key(a.args[0]).atoms(), out)
            _collect_atoms(Sym._from_key(a.args[1]).atoms(), out)
            _collect_atoms(Sym._from_key(a.args[2]).atoms(), out)
        elif a.kind == "fn":
            for x in a.args[1]:
                _collect_atoms(Sym._from_key(x).atoms(), out)
        else:
            _collect_atoms(Sym._from_key(a.args[0]).atoms(), out)


def all_atoms(formulas) -> set:
    out: set = set()
    for f in formulas:
        _collect_atoms(f.atoms(), out)
    return out


def axioms_for(atom_ids) -> list:
    """z3 axioms for the opaque atoms among atom_ids.  Each axiom is a true statement about the
    real function (sqrt's definition on its domain, sin/cos range and quadrant signs, pi bounds)."""
    ax = []
    pi_needed = False
    trig_args = {}
    for aid in sorted(atom_ids):
        a = ATOMS[aid]
        if a.kind == "pi":
            pi_needed = True
        elif a.kind == "sqrt":
            t = atom_z3(a)
            x = to_z3(Sym._from_key(a.args[0]), "real")
            ax.append(z3.Implies(x >= 0, z3.And(t >= 0, t * t == x)))
        elif a.kind in ("sin", "cos"):
            pi_needed = True
            trig_args.setdefault(a.args[0], set()).add(a.kind)
        elif a.kind == "floor":
            pass  # ToInt is interpreted
    if pi_needed:
        pi = atom_z3(mk_atom("pi", (), "real"))
        ax.append(z3.And(pi > z3.RealVal("3.1415926535"), pi < z3.RealVal("3.1415926536")))
    sinf = _func("sin!", 1, "real", "real")
    cosf = _func("cos!", 1, "real", "real")
    for argk in trig_args:
        x = to_z3(Sym._from_key(argk), "real")
        pi = atom_z3(mk_atom("pi", (), "real"))
        s, c = sinf(x), cosf(x)
        ax += [
            s * s + c * c == 1, s >= -1, s <= 1, c >= -1, c <= 1,
            z3.Implies(z3.And(x >= 0, x <= pi), s >= 0),
            z3.Implies(z3.And(x >= -pi, x <= 0), s <= 0),
            z3.Implies(z3.And(x >= -pi / 2, x <= pi / 2), c >= 0),
            z3.Implies(z3.And(x >= pi / 2, x <= 3 * pi / 2), c <= 0),
            z3.Implies(x == 0, z3.And(s == 0, c == 1)),
            z3.Implies(x == pi / 2, z3.And(s == 1, c == 0)),
            z3.Implies(x == pi, z3.And(s == 0, c == -1)),
            z3.Implies(x == -pi / 2, z3.And(s == -1, c == 0)),
            z3.Implies(x == -pi, z3.And(s == 0, c == -1)),
            z3.Implies(x > 0, s < x), z3.Implies(x < 0, s > x),
            # 1-Lipschitz against the zeros at +-pi:  |sin x - sin(+-pi)| <= |x -+ pi|
            s <= z3.If(x <= pi, pi - x, x - pi), s >= -z3.If(x >= -pi, x + pi, -x - pi),
            s >= -z3.If(x <= pi, pi - x, x - pi), s <= z3.If(x >= -pi, x + pi, -x - pi),
        ]
    # pairwise: 1-Lipschitz, oddness of sin, evenness of cos
    keys = sorted(trig_args)
    for i in range(len(keys)):
        for j in range(i + 1, len(keys)):
            x = to_z3(Sym._from_key(keys[i]), "real")
            y = to_z3(Sym._from_key(keys[j]), "real")
            d = z3.If(x >= y, x - y, y - x)
            ax += [sinf(x) - sinf(y) <= d, sinf(y) - sinf(x) <= d, cosf(x) - cosf(y) <= d, cosf(y) - cosf(x) <= d,
                   z3.Implies(x + y == 0, z3.And(sinf(x) + sinf(y) == 0, cosf(x) == cosf(y)))]
    return ax


# --------------------------------------------------------------------------------------------
# discharge
# --------------------------------------------------------------------------------------------
class Result:
    __slots__ = ("verdict", "backend", "seconds", "model", "detail")

    def __init__(self, verdict, backend, seconds, model=None, detail=""):
        self.verdict = verdict
        self.backend = backend
        self.seconds = seconds
        self.model = model
        self.detail = detail

    def __repr__(self):
        return f"<{self.verdict} by {self.backend} in {self.seconds:.3f}s {self.detail}>"


def _model_dict(model, atom_ids):
    out = {}
    for aid in sorted(atom_ids):
        a = ATOMS[aid]
        if a.kind in ("var", "cell", "fn", "pi", "sqrt"):
            try:
                v = model.eval(atom_z3(a), model_completion=True)
                out[repr(a)] = _val(v)
            except z3.Z3Exception:
                pass
    return out


def _val(v):
    if z3.is_int_value(v):
        return v.as_long()
    if z3.is_rational_value(v):
        return str(Fraction(v.numerator_as_long(), v.denominator_as_long()))
    if z3.is_algebraic_value(v):
        return v.approx(12).as_decimal(12)
    return str(v)


def prove(goal: BoolSym, assumptions=(), extra_axioms=(), timeout_ms=None, use_cvc5=True) -> Result:
    """Decide  (AND assumptions) => goal."""
    t0 = time.time()
    if goal.is_const() and goal.value():
        return Result("proved", "normaliser", 0.0)
    # pure ring identity: goal is an equality (or conjunction of them) whose residual vanished
    # already at construction (BoolSym.cmp folds constants), so reaching here means non-trivial.
    atoms = all_atoms([goal, *assumptions])
    if goal.k[0] == "eq":
        w = poly_witness(goal, assumptions)
        if w is not None:
            dt = time.time() - t0
            STATS["norm_calls"] += 1
            STATS["norm_s"] += dt
            return Result("refuted", "normaliser", dt, model=w,
                          detail="non-zero residual; exact rational witness satisfies all assumptions")
    s = z3.Solver()
    s.set("timeout", timeout_ms or Z3_TIMEOUT_MS)
    for a in assumptions:
        s.add(bool_z3(a))
    for ax in axioms_for(atoms):
        s.add(ax)
    for ax in extra_axioms:
        s.add(ax)
    s.add(z3.Not(bool_z3(goal)))
    STATS["z3_calls"] += 1
    r = s.check()
    dt = time.time() - t0
    STATS["z3_s"] += dt
    if r == z3.unsat:
        return Result("proved", "z3", dt)
    if r == z3.sat:
        opaque = sorted({ATOMS[a].kind for a in atoms if ATOMS[a].kind in ("sin", "cos", "log", "exp", "fn")})
        if opaque:
            # the model interprets an axiomatised function freely: a candidate, not a counterexample
            return Result("unknown", "z3", dt, model=_model_dict(s.model(), atoms),
                          detail="sat modulo the axioms of " + ",".join(opaque) + " (candidate model only)")
        model = _model_dict(s.model(), atoms)
        # prefer a counterexample on a small grid (native replay allocates the arrays)
        ints = [atom_z3(ATOMS[a]) for a in atoms if ATOMS[a].kind == "var" and ATOMS[a].sort == "int"]
        if ints:
            for bound in (12, 40):
                s.push()
                s.set("timeout", 5000)
                for v in ints:
                    s.add(v <= bound, v >= -bound)
                if s.check() == z3.sat:
                    model = _model_dict(s.model(), atoms)
                    for v in ints:
                        pass
                    small_bounds = [v <= bound for v in ints] + [v >= -bound for v in ints]
                    s.pop()
                    for c_ in small_bounds:
                        s.add(c_)
                    break
                s.pop()
        # for inequalities, look for a counterexample with a comfortable margin (robust native replay)
        if goal.k[0] in ("le", "lt"):
            res = to_z3(Sym._from_key(goal.k[1]), "real")
            for margin in (1, z3.RealVal("1/100")):
                s.push()
                s.set("timeout", 5000)
                s.add(res >= margin)
                if s.check() == z3.sat:
                    model = _model_dict(s.model(), atoms)
                    model["_margin"] = str(margin)
                    s.pop()
                    break
                s.pop()
        return Result("refuted", "z3", dt, model=model)
    detail = s.reason_unknown()
    if use_cvc5:
        r2 = _cvc5(s.to_smt2())
        if r2 is not None:
            verdict, secs = r2
            return Result(verdict, "cvc5", dt + secs, detail="z3: " + detail)
    return Result("unknown", "z3", dt, detail=detail)


def check_sat(formulas, timeout_ms=5000):
    """-> 'sat' | 'unsat' | 'unknown' for the conjunction (vacuity guards)."""
    s = z3.Solver()
    s.set("timeout", timeout_ms)
    for f in formulas:
        s.add(bool_z3(f))
    for ax in axioms_for(all_atoms(formulas)):
        s.add(ax)
    return str(s.check())


def _cvc5(smt2: str):
    exe = "/usr/bin/cvc5"
    if not os.path.exists(exe):
        return None
    t0 = time.time()
    STATS["cvc5_calls"] += 1
    with tempfile.NamedTemporaryFile("w", suffix=".smt2", delete=False, dir=os.environ.get("SVX_WORK", None)) as f:
        f.write("(set-logic ALL)\n" + smt2)
        path = f.name
    try:
        out = subprocess.run([exe, "--lang=smt2", f"--tlimit={CVC5_TIMEOUT_MS}", path],
                             capture_output=True, text=True, timeout=CVC5_TIMEOUT_MS / 1000 + 10).stdout
    except subprocess.TimeoutExpired:
        out = ""
    finally:
        os.unlink(path)
    dt = time.time() - t0
    STATS["cvc5_s"] += dt
    first = out.strip().splitlines()[0] if out.strip() else ""
    if first == "unsat":
        return "proved", dt
    if first == "sat":
        return "refuted", dt
    return None


# --------------------------------------------------------------------------------------------
# exact evaluation and polynomial-residual witnesses (normaliser refutation, DESIGN 3.4)
# --------------------------------------------------------------------------------------------
class NotEvaluable(Exception):
    pass


def eval_sym(s: Sym, env) -> Fraction:
    """exact value of s; env(atom) -> Fraction for var / cell atoms (cell: called with evaluated index)."""
    tot = Fraction(0)
    for m, c in s.p.items():
        t = c
        for aid, e in m:
            v = eval_atom(ATOMS[aid], env)
            if e < 0 and v == 0:
                raise NotEvaluable("division by zero")
            t = t * v**e
        tot += t
    return tot


def eval_atom(a: Atom, env) -> Fraction:
    k = a.kind
    if k == "var":
        return env("var", a.args[0], a.sort)
    if k == "cell":
        idx = tuple(int(eval_sym(Sym._from_key(x), env)) for x in a.args[1])
        return env("cell", (a.args[0], idx), a.sort)
    if k == "ite":
        return eval_sym(Sym._from_key(a.args[1] if eval_bool(BoolSym._from_key(a.args[0]), env) else a.args[2]), env)
    if k == "inv":
        v = eval_sym(Sym._from_key(a.args[0]), env)
        if v == 0:
            raise NotEvaluable("division by zero")
        return 1 / v
    if k == "abs":
        return abs(eval_sym(Sym._from_key(a.args[0]), env))
    if k == "floor":
        import math
        return Fraction(math.floor(eval_sym(Sym._from_key(a.args[0]), env)))
    raise NotEvaluable(k)


def eval_bool(b: BoolSym, env) -> bool:
    k = b.k
    if k[0] == "const":
        return k[1]
    if k[0] in ("lt", "le", "eq"):
        v = eval_sym(Sym._from_key(k[1]), env)
        return v < 0 if k[0] == "lt" else v <= 0 if k[0] == "le" else v == 0
    if k[0] == "not":
        return not eval_bool(BoolSym(k[1]), env)
    if k[0] == "and":
        return all(eval_bool(BoolSym(x), env) for x in k[1])
    return any(eval_bool(BoolSym(x), env) for x in k[1])


def _ATOM_LOOKUP(kind, key):
    from .sym import _ATOM_INDEX
    if kind == "var":
        for sort_key in ((kind, (key,)),):
            a = _ATOM_INDEX.get(sort_key)
            if a is not None:
                return a.id
        return None
    name, idx = key
    a = _ATOM_INDEX.get(("cell", (name, tuple(Sym.const(i).key() for i in idx))))
    return a.id if a is not None else None


def poly_witness(goal: BoolSym, assumptions, tries=40, seed=0):
    """For goal `residual == 0` with a non-zero residual over independent atoms: an exact rational
    assignment satisfying the assumptions under which the residual is non-zero, or None."""
    import random

    if goal.k[0] != "eq":
        return None
    res = Sym._from_key(goal.k[1])
    atoms = all_atoms([goal, *assumptions])
    if any(ATOMS[a].kind not in ("var", "cell", "ite", "inv", "abs", "floor") for a in atoms):
        return None
    int_vars = [ATOMS[a] for a in atoms if ATOMS[a].kind == "var" and ATOMS[a].sort == "int"]
    s = z3.Solver()
    s.set("timeout", 5000)
    for f in assumptions:
        if all(ATOMS[a].kind == "var" and ATOMS[a].sort == "int" for a in all_atoms([f])):
            s.add(bool_z3(f))
    rng = random.Random(seed)
    # real symbols constrained by the assumptions (e.g. c^2 + s^2 == 1, 0 <= ratio <= 1) take their values from a
    # solver model of the assumptions; everything else is sampled
    pinned = {}
    real_constrained = set()
    for f in assumptions:
        ids = all_atoms([f])
        if any(ATOMS[a].sort == "real" for a in ids):
            real_constrained |= {a for a in ids if ATOMS[a].kind in ("var", "cell")}
    if real_constrained:
        s2 = z3.Solver()
        s2.set("timeout", 3000)
        for f in assumptions:
            s2.add(bool_z3(f))
        if s2.check() == z3.sat:
            mdl = s2.model()
            for a in real_constrained:
                v = mdl.eval(atom_z3(ATOMS[a]), model_completion=True)
                if z3.is_rational_value(v):
                    pinned[a] = Fraction(v.numerator_as_long(), v.denominator_as_long())
                elif z3.is_int_value(v):
                    pinned[a] = Fraction(v.as_long())
    for bound in (6, 12, 40, None):
        s.push()
        if bound is not None:
            for v in int_vars:
                s.add(atom_z3(v) <= bound, atom_z3(v) >= -bound)
        ok = s.check() == z3.sat
        model = s.model() if ok else None
        s.pop()
        if not ok:
            continue
        ints = {v.args[0]: model.eval(atom_z3(v), model_completion=True).as_long() for v in int_vars}
        for _ in range(tries):
            vals = {}

            def env(kind, key, sort, vals=vals):
                if kind == "var" and sort == "int":
                    return Fraction(ints[key])
                k = (kind, key)
                if k not in vals and pinned:
                    pa = _ATOM_LOOKUP(kind, key)
                    if pa is not None and pa in pinned:
                        vals[k] = pinned[pa]
                if k not in vals:
                    vals[k] = Fraction(rng.randint(-6, 6), rng.choice((1, 1, 2, 3))) if rng.random() < 0.8 else Fraction(rng.randint(1, 9))
                return vals[k]

            try:
                if not all(eval_bool(f, env) for f in assumptions):
                    # retry with positive values (typical preconditions: dx, nu, ... > 0)
                    for k in list(vals):
                        vals[k] = abs(vals[k]) + Fraction(1, 3)
                    if not all(eval_bool(f, env) for f in assumptions):
                        continue
                r = eval_sym(res, env)
            except NotEvaluable:
                continue
            if r != 0:
                out = dict(ints)
                for (kind, key), v in vals.items():
                    out[key if kind == "var" else f"{key[0]}[{', '.join(map(str, key[1]))}]"] = str(v)
                out["_residual"] = str(r)
                return out
    return None
