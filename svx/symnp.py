"""svx.symnp -- a stand-in for the module global `np` inside sopht modules during symbolic execution.

Forwards everything to numpy, except the handful of array constructors / reductions that SophT's
host code applies to grid-sized arrays; those return symbolic fields (`View`) or lazy element-wise
expressions (`Lazy`) over symbolic extents.  Concrete small arrays keep going to real numpy.

Contracts assumed here (listed in the evidence of the checks that reach them):
  np.amax(a)   returns m with m >= a[c] for every cell c and m == a[c*] for some cell c*.
  np.finfo(real_t).eps   a constant 0 < eps <= 2^-23.
"""
from __future__ import annotations

import itertools
from fractions import Fraction

import numpy as _np

from . import ctx
from .field import Buffer, S, View, _maybe_int, _norm_slice
from .sym import BoolSym, Sym, Unsupported, ite, mk_atom, smax, smin

class _Counter:
    def __init__(self):
        self.n = 0

    def __next__(self):
        self.n += 1
        return self.n - 1


_ids = _Counter()
ctx.RESET_HOOKS.append(lambda: setattr(_ids, "n", 0))


def _is_symbolic_shape(shape):
    return any(isinstance(s, Sym) and not s.is_const() for s in shape)


class Lazy:
    """element-wise expression over an index space: shape (ints / Sym), fn(idx) -> Sym"""

    __array_priority__ = 3000.0

    def __init__(self, shape, fn, kind="real"):
        self.shape = tuple(_maybe_int(S(s)) for s in shape)
        self.fn = fn
        self.kind = kind  # "complex": trailing axis of length 2 = (re, im)

    @property
    def real(self):
        if self.kind != "complex":
            return self
        f = self.fn
        return Lazy(self.shape[:-1], lambda idx: f(tuple(idx) + (Sym.const(0),)))

    @property
    def imag(self):
        if self.kind != "complex":
            raise Unsupported(".imag of a real lazy array")
        f = self.fn
        return Lazy(self.shape[:-1], lambda idx: f(tuple(idx) + (Sym.const(1),)))

    def __setitem__(self, key, value):
        """single-cell assignment a[i, j, ..] = v (numpy semantics on a fresh array)"""
        if not isinstance(key, tuple):
            key = (key,)
        if len(key) != self.ndim or any(isinstance(k, slice) or k is Ellipsis for k in key):
            raise Unsupported("item assignment on a lazy array other than a single cell")
        at = [S(k) for k in key]
        val = S(value)
        old = self.fn

        def fn(idx, at=at, val=val, old=old):
            from .sym import all_of
            hit = all_of(*[S(i) == a for i, a in zip(idx, at)])
            d = ctx.decide(hit)
            if d is True:
                return val  # the overwritten expression (e.g. 1/r at r = 0) is never evaluated for this cell
            if d is False:
                return S(old(idx))
            return ite(hit, val, S(old(idx)))

        self.fn = fn
        if hasattr(self, "_view"):
            del self._view

    @property
    def ndim(self):
        return len(self.shape)

    def at(self, c, upto=None):
        return S(self.fn(tuple(S(x) for x in c)))

    def astype(self, _t):
        return self

    def copy(self):
        return self

    def as_view(self, name="lazy"):
        """a read-only field whose content is DEFINED by this expression (usable as a kernel argument)"""
        v = getattr(self, "_view", None)
        if v is None:
            b = Buffer(f"{name}{next(_ids)}", [S(n) for n in self.shape])
            b.init = self.fn
            v = self._view = b.full_view()
        return v

    def __len__(self):
        n = self.shape[0]
        if not isinstance(n, int):
            raise Unsupported("len() of a symbolic-length axis")
        return n

    def __iter__(self):
        return (self[i] for i in range(len(self)))

    def __getitem__(self, key):
        if not isinstance(key, tuple):
            key = (key,)
        if any(k is Ellipsis for k in key):
            i = [j for j, k in enumerate(key) if k is Ellipsis][0]
            key = key[:i] + (slice(None),) * (self.ndim - len(key) + 1) + key[i + 1:]
        key = key + (slice(None),) * (self.ndim - len(key))
        fixed, starts, shape = {}, {}, []
        for a, k in enumerate(key):
            n = S(self.shape[a])
            if isinstance(k, slice):
                if k.step not in (None, 1):
                    raise Unsupported("strided slice")
                lo, hi = _norm_slice(k, n)
                starts[a] = lo
                shape.append(hi - lo)
            else:
                i = S(k)
                if ctx.branch(i < 0):
                    i = i + n
                if not ctx.branch((i >= 0) & (i < n)):
                    raise IndexError(f"index {k} is out of bounds for axis {a} with size {n}")
                fixed[a] = i
        base = self.fn

        def fn(idx):
            full, j = [], 0
            for a in range(len(key)):
                if a in fixed:
                    full.append(fixed[a])
                else:
                    full.append(starts[a] + idx[j])
                    j += 1
            return base(tuple(full))

        if not shape:
            return S(fn(()))
        return Lazy(shape, fn)

    # element-wise arithmetic -----------------------------------------------------------------
    def _bin(self, o, op):
        if isinstance(o, (View, Lazy)):
            other = as_lazy(o)
            sh = _broadcast(self.shape, other.shape)
            a, b = _bcast_fn(self, sh), _bcast_fn(other, sh)
            return Lazy(sh, lambda idx: op(a(idx), b(idx)))
        v = Sym.coerce(o)
        if v is None:
            return NotImplemented
        f = self.fn
        # a complex array times / plus a REAL scalar acts component-wise for * and / only
        return Lazy(self.shape, lambda idx: op(S(f(idx)), v), kind=self.kind)

    def __add__(self, o): return self._bin(o, lambda a, b: a + b)
    def __radd__(self, o): return self._bin(o, lambda a, b: b + a)
    def __sub__(self, o): return self._bin(o, lambda a, b: a - b)
    def __rsub__(self, o): return self._bin(o, lambda a, b: b - a)
    def __mul__(self, o): return self._bin(o, lambda a, b: a * b)
    def __rmul__(self, o): return self._bin(o, lambda a, b: b * a)
    def __truediv__(self, o): return self._bin(o, lambda a, b: a / b)
    def __rtruediv__(self, o): return self._bin(o, lambda a, b: b / a)
    def __pow__(self, n): return Lazy(self.shape, lambda idx, f=self.fn: S(f(idx)) ** n)
    def __neg__(self): return Lazy(self.shape, lambda idx, f=self.fn: -S(f(idx)))

    __array_ufunc__ = None

    def __array_function__(self, func, types, args, kwargs):
        raise Unsupported(f"numpy function {func.__name__} on a lazy symbolic array")


def as_lazy(x) -> Lazy:
    if isinstance(x, Lazy):
        return x
    if isinstance(x, View):
        upto = len(x.buf.log)  # value at the time of the call (numpy evaluates eagerly)
        return Lazy(x.shape, lambda idx, x=x, upto=upto: x.at(idx, upto), kind=x.buf.kind if x.ndim == x.buf.rank else "real")
    raise Unsupported(f"not a symbolic array: {type(x).__name__}")


def _same(a, b):
    return S(a).same(S(b)) or ctx.decide(S(a) == S(b)) is True


def _broadcast(s1, s2):
    n = max(len(s1), len(s2))
    s1 = (1,) * (n - len(s1)) + tuple(s1)
    s2 = (1,) * (n - len(s2)) + tuple(s2)
    out = []
    for a, b in zip(s1, s2):
        if _same(a, b):
            out.append(a)
        elif _same(a, 1):
            out.append(b)
        elif _same(b, 1):
            out.append(a)
        else:
            raise ValueError(f"operands could not be broadcast together with shapes {s1} {s2}")
    return tuple(out)


def _bcast_fn(arr: Lazy, shape):
    pad = len(shape) - arr.ndim
    ones = [(_same(s, 1) and not _same(t, 1)) for s, t in zip(arr.shape, shape[pad:])]
    f = arr.fn
    return lambda idx: S(f(tuple(Sym.const(0) if one else i for i, one in zip(idx[pad:], ones))))


def install_view_ops():
    """arithmetic on Views yields Lazy expressions (numpy semantics: a new array)."""
    def mk(op, swap=False):
        def f(self, o):
            if isinstance(o, _np.ndarray) and o.ndim:
                me = self.to_object_array()  # small concrete window against an object array
                return op(o, me) if swap else op(me, o)
            a = as_lazy(self)
            r = a._bin(o, (lambda x, y: op(y, x)) if swap else op)
            return r
        return f
    View.__add__ = mk(lambda a, b: a + b)
    View.__radd__ = mk(lambda a, b: a + b, True)
    View.__sub__ = mk(lambda a, b: a - b)
    View.__rsub__ = mk(lambda a, b: a - b, True)
    View.__mul__ = mk(lambda a, b: a * b)
    View.__rmul__ = mk(lambda a, b: a * b, True)
    View.__truediv__ = mk(lambda a, b: a / b)
    View.__rtruediv__ = mk(lambda a, b: a / b, True)
    View.__neg__ = lambda self: as_lazy(self).__neg__()
    View.__pow__ = lambda self, n: as_lazy(self).__pow__(n)
    View.astype = lambda self, _t: self


install_view_ops()


class SymReal:
    """real_t stand-in: SymReal(x) is x (casts are identities over the reals, assumption A1)."""

    def __new__(cls, x=0):
        return x

    def __class_getitem__(cls, item):
        return cls


class _RealTMeta(type):
    def __eq__(cls, other):
        return other is cls or other is _np.float64

    def __hash__(cls):
        return hash("SymReal")


class SymReal64(metaclass=_RealTMeta):
    """compares equal to np.float64, so sopht.utils.get_pyst_dtype takes its real path."""

    def __new__(cls, x=0):
        return x


EPS = None


def eps() -> Sym:
    e = Sym.R("machine_eps")
    ctx.assume(e > 0)
    ctx.assume(e <= Fraction(1, 2**23))
    return e


class _Finfo:
    def __init__(self, _t):
        self.eps = eps()


class SymNp:
    """module proxy.  Attribute access falls back to numpy."""

    pi = _np.pi
    ndarray = _np.ndarray
    float32 = _np.float32
    float64 = _np.float64
    inf = _np.inf

    def __getattr__(self, name):
        return getattr(_np, name)

    # -- constructors -------------------------------------------------------------------------
    def _new(self, name, shape, init):
        shape = tuple(shape) if isinstance(shape, (tuple, list)) else (shape,)
        b = Buffer(f"{name}{next(_ids)}", [S(s) for s in shape])
        b.init = init
        return b.full_view()

    def zeros(self, shape, dtype=None, **kw):
        return self._new("zeros", shape, lambda idx: Sym.const(0))

    def ones(self, shape, dtype=None, **kw):
        return self._new("ones", shape, lambda idx: Sym.const(1))

    def empty(self, shape, dtype=None, **kw):
        return self._new("empty", shape, None)  # arbitrary (uninitialised) content

    def zeros_like(self, a, dtype=None, **kw):
        if isinstance(a, View) and a.buf.kind == "complex" and a.ndim == a.buf.rank:
            b = Buffer(f"zeros{next(_ids)}", [S(n) for n in a.shape], kind="complex")
            b.init = lambda idx: Sym.const(0)
            return b.full_view()
        if isinstance(a, (View, Lazy)):
            return self.zeros(a.shape)
        return _np.zeros_like(a, dtype=dtype, **kw)

    def ones_like(self, a, dtype=None, **kw):
        if isinstance(a, (View, Lazy)):
            return self.ones(a.shape)
        return _np.ones_like(a, dtype=dtype, **kw)

    def empty_like(self, a, dtype=None, **kw):
        if isinstance(a, (View, Lazy)):
            return self.empty(a.shape)
        return _np.empty_like(a, dtype=dtype, **kw)

    def linspace(self, start, stop, num, **kw):
        if kw:
            raise Unsupported(f"linspace options {sorted(kw)}")
        a, b, n = S(start), S(stop), S(num)
        if a.is_const() and b.is_const() and n.is_const():
            return _np.linspace(float(a), float(b), int(n))
        if ctx.branch(n == 1):
            return Lazy((n,), lambda idx: a)
        step = (b - a) / (n - 1)
        return Lazy((n,), lambda idx: a + idx[0] * step)

    def arange(self, *a, **k):
        return _np.arange(*a, **k)

    def meshgrid(self, *arrs, indexing="xy", **kw):
        if not any(isinstance(a, (Lazy, View)) for a in arrs):
            return _np.meshgrid(*arrs, indexing=indexing, **kw)
        if kw:
            raise Unsupported("meshgrid options")
        ls = [as_lazy(a) for a in arrs]
        if indexing == "xy":
            if len(ls) != 2:
                raise Unsupported("meshgrid indexing='xy' with other than two arrays")
            shape = (ls[1].shape[0], ls[0].shape[0])  # (len(y), len(x)); x varies along the last axis
            return [Lazy(shape, lambda idx, l=ls[0]: l.fn((idx[1],))), Lazy(shape, lambda idx, l=ls[1]: l.fn((idx[0],)))]
        if indexing != "ij":
            raise Unsupported(f"meshgrid indexing={indexing!r}")
        shape = tuple(l.shape[0] for l in ls)
        return [Lazy(shape, lambda idx, l=l, d=d: l.fn((idx[d],))) for d, l in enumerate(ls)]

    def array(self, obj, dtype=None, **kw):
        if isinstance(obj, (list, tuple)) and obj and all(isinstance(o, (Lazy, View)) for o in obj):
            ls = [as_lazy(o) for o in obj]
            shape = (len(ls),) + tuple(ls[0].shape)

            def fn(idx):
                k = idx[0]
                if k.is_const():
                    return ls[int(k.const_value())].fn(idx[1:])
                r = ls[-1].fn(idx[1:])
                for j in range(len(ls) - 2, -1, -1):
                    r = ite(k == j, ls[j].fn(idx[1:]), r)
                return r

            return Lazy(shape, fn)
        if isinstance(obj, (Lazy, View)):
            return as_lazy(obj)
        return _np.array(obj, dtype=dtype, **kw)

    def asarray(self, obj, dtype=None, **kw):
        if isinstance(obj, (Lazy, View)):
            return obj
        return _np.asarray(obj, dtype=dtype, **kw)

    def flipud(self, a):
        if isinstance(a, (Lazy, View)):
            l = as_lazy(a)
            n = S(l.shape[0])
            return Lazy(l.shape, lambda idx: l.fn((n - 1 - idx[0],) + tuple(idx[1:])))
        return _np.flipud(a)

    # -- element-wise -----------------------------------------------------------------------------
    def _ew(self, name, a, out=None):
        if isinstance(a, (Lazy, View)):
            l = as_lazy(a)
            r = Lazy(l.shape, lambda idx: getattr(S(l.fn(idx)), name)())
            if out is not None:
                out[...] = r
                return out
            return r
        if out is not None:
            raise Unsupported("out= with concrete operands")
        if isinstance(a, Sym):
            return getattr(a, name)()
        return getattr(_np, name)(a)

    def fabs(self, a, out=None): return self._ew("fabs", a, out)
    def abs(self, a, out=None): return self._ew("fabs", a, out)
    def absolute(self, a, out=None): return self._ew("fabs", a, out)
    def sqrt(self, a): return self._ew("sqrt", a)
    def log(self, a): return self._ew("log", a)
    def sin(self, a): return self._ew("sin", a)
    def cos(self, a): return self._ew("cos", a)

    def minimum(self, a, b):
        if isinstance(a, (Lazy, View)) or isinstance(b, (Lazy, View)):
            la = as_lazy(a) if isinstance(a, (Lazy, View)) else None
            lb = as_lazy(b) if isinstance(b, (Lazy, View)) else None
            if la is not None and lb is not None:
                sh = _broadcast(la.shape, lb.shape)
                fa, fb = _bcast_fn(la, sh), _bcast_fn(lb, sh)
                return Lazy(sh, lambda idx: smin(fa(idx), fb(idx)))
            l, s = (la, S(b)) if la is not None else (lb, S(a))
            return Lazy(l.shape, lambda idx: smin(S(l.fn(idx)), s))
        if isinstance(a, Sym) or isinstance(b, Sym):
            return smin(a, b)
        return _np.minimum(a, b)

    # -- reductions -------------------------------------------------------------------------------
    def sum(self, a, axis=None, out=None, **kw):
        if not isinstance(a, (Lazy, View)):
            return _np.sum(a, axis=axis, out=out, **kw) if out is not None else _np.sum(a, axis=axis, **kw)
        if out is not None:
            out[...] = self.sum(a, axis=axis, **kw)
            return out
        l = as_lazy(a)
        if axis is None or kw:
            raise Unsupported("np.sum over all cells of a symbolic-extent field")
        n = l.shape[axis]
        if not isinstance(n, int):
            raise Unsupported("np.sum along a symbolic-length axis")
        shape = l.shape[:axis] + l.shape[axis + 1:]

        def fn(idx):
            tot = Sym.const(0)
            for k in range(n):
                tot = tot + S(l.fn(tuple(idx[:axis]) + (Sym.const(k),) + tuple(idx[axis:])))
            return tot

        return Lazy(shape, fn)

    def amax(self, a, **kw):
        if not isinstance(a, (Lazy, View)):
            return _np.amax(a, **kw)
        if kw:
            raise Unsupported("np.amax options")
        l = as_lazy(a)
        k = next(_ids)
        m = Sym.R(f"amax{k}")
        # attained at some cell c*
        star = []
        for d, n in enumerate(l.shape):
            v = Sym.I(f"amax{k}_at{d}")
            ctx.assume(v >= 0)
            ctx.assume(v < S(n))
            star.append(v)
        ctx.assume(m == S(l.fn(tuple(star))))
        AMAX_LOG.append((m, l))
        return m

    max = amax

    @property
    def linalg(self):
        return _SymLinalg()

    def finfo(self, t):
        return _Finfo(t)

    def any(self, a, **kw):
        if isinstance(a, View):
            return a.any()
        return _np.any(a, **kw)

    def count_nonzero(self, a, **kw):
        if isinstance(a, View):
            raise Unsupported("count_nonzero on a symbolic field")
        return _np.count_nonzero(a, **kw)

    def allclose(self, a, b, rtol=1e-5, atol=1e-8, **kw):
        """np.allclose(field, scalar): |a - b| <= atol + rtol |b| at EVERY cell (global predicate, forked)"""
        if isinstance(a, View) and not isinstance(b, (View, Lazy)):
            bb = S(b)
            tol = S(atol) + S(rtol) * bb.fabs()
            return a._global_predicate("allclose", lambda v: (v - bb).fabs() <= tol)
        if isinstance(a, (View, Lazy)) or isinstance(b, (View, Lazy)):
            raise Unsupported("np.allclose between symbolic arrays")
        return _np.allclose(a, b, rtol=rtol, atol=atol, **kw)


NORM_LOG: list = []  # (result symbol, view, length of the view's buffer log at the call)


class _SymLinalg:
    """np.linalg by contract: norm(field) is an opaque non-negative real that is a function of the
    field's content at the call (recorded, so the caller's contract can name the argument)."""

    def __getattr__(self, name):
        return getattr(_np.linalg, name)

    def norm(self, a, *args, **kw):
        if not isinstance(a, (Lazy, View)):
            return _np.linalg.norm(a, *args, **kw)
        if args or kw:
            raise Unsupported("np.linalg.norm options")
        m = Sym.R(f"l2norm{len(NORM_LOG)}")
        ctx.assume(m >= 0)
        NORM_LOG.append((m, a, len(a.buf.log) if isinstance(a, View) else None))
        return m


AMAX_LOG: list = []  # (m, lazy array): the universally quantified half  m >= a[c]  is instantiated on demand


def amax_bounds(cell_of=None):
    """facts  m >= a[c]  for every np.amax result at the given cell(s) (instantiation of the
    universally quantified part of np.amax's contract at a Skolem cell)."""
    out = []
    for m, l in AMAX_LOG:
        c = cell_of(l) if cell_of else None
        if c is not None:
            out.append(m >= S(l.fn(tuple(S(x) for x in c))))
    return out
