"""svx.driver -- `./check <property> [--tier quick|thorough] [--replay file] [--update-lock]`

Exit codes: 0 all obligations discharged (KNOWN-FINDING lines allowed) | 1 VIOLATION (a refuted
obligation not listed in known_findings.json) | 2 undecided (unknown / timeout) | 3 checker error.
"""
from __future__ import annotations

import argparse
import hashlib
import inspect
import json
import multiprocessing as mp
import os
import subprocess
import sys
import time

ROOT = os.path.dirname(os.path.dirname(os.path.abspath(__file__)))
# outputs of runs against a scratch copy (SVX_REPO, seeded-change evaluation) never overwrite the
# evidence / replay files of the registered checks
ALT = os.environ.get("SVX_REPO", "/repo").rstrip("/") != "/repo"
OUT = os.path.join(ROOT, ".work", "alt", os.path.basename(os.environ.get("SVX_REPO", "x"))) if ALT else ROOT
PY = os.path.join(ROOT, ".venv", "bin", "python")

STANDING_ASSUMPTIONS = [
    "A1 machine arithmetic treated as mathematical: float32/float64 arithmetic is verified over the reals; "
    "float literals are read as the rationals / multiples of pi the author wrote (conversion log in coverage.float_literals)",
    "A2 CPython executes the closures (control flow, kwargs, closures are CPython's own); numpy basic-indexing semantics "
    "as implemented in svx.field",
    "A3 pystencils: a kernel executes its assignments at every cell of [g, n-g)^d (g = max |offset|) or of its "
    "iteration_slice; code generation and compilation are trusted (region semantics cross-checked on generated C, DESIGN P5); "
    "sound only if the C15 dependence obligations hold, which are generated at every kernel call",
    "A4 numba compiles @njit functions to their Python semantics (njit neutralised by svx.boot; fastmath reassociation is rounding-level)",
]


class _UnitTimeout(BaseException):
    pass


def _task(args):
    """one unit configuration in a worker process, under a wall-clock limit (a runaway symbolic
    execution -- e.g. term blow-up after a change to the code -- becomes a checker error for that
    unit, which the bounded native stand-in then examines; never a verdict by itself)."""
    import signal

    name, cfg, want, timeout_ms = args
    from . import contract

    limit = int(os.environ.get("SVX_UNIT_LIMIT_S", "600" if timeout_ms <= 20000 else "3000"))

    def on_alarm(signum, frame):
        raise _UnitTimeout()

    signal.signal(signal.SIGALRM, on_alarm)
    signal.alarm(limit)
    try:
        return contract.run_unit_sym(name, cfg, timeout_ms=timeout_ms, want_props=want)
    except _UnitTimeout:
        u = contract.UNITS[name]
        return ([dict(name=f"{name}/engine[{contract.cfg_str(cfg)}]", props=list(u["props"]), kind="engine", verdict="error",
                      backend="svx", seconds=float(limit), model=None, unit=name, cfg=cfg, goal="",
                      detail=f"unit exceeded its wall-clock limit of {limit} s")],
                dict(unit=name, cfg=cfg, paths=0, wall=float(limit), functions=[]))
    finally:
        signal.alarm(0)


def _base(name: str) -> str:
    """obligation name without the path suffix '#TF..'"""
    return name.split("#")[0]


def select_tasks(pid, tier):
    from . import contract

    tasks = []
    for name, u in contract.UNITS.items():
        props = set(u["props"]) | set(u.get("extra_props", ()))
        if pid in props or (pid == "C15" and u.get("kernels", True)):
            tiers = u.get("tier", "quick")
            if tiers == "thorough" and tier != "thorough":
                continue
            for cfg in u["configs"]:
                if cfg.get("_tier") == "thorough" and tier != "thorough":
                    continue
                tasks.append((name, {k: v for k, v in cfg.items() if k != "_tier"}))
    return tasks


def load_known(pid):
    path = os.path.join(ROOT, "known_findings.json")
    if not os.path.exists(path):
        return [], []
    data = json.load(open(path))
    return ([f for f in data.get("findings", []) if f["property"] == pid],
            [f for f in data.get("fixed", []) if f["property"] == pid])


def native_replay(unit, cfg, model, seeds=(0,)):
    work = os.path.join(ROOT, ".work")
    os.makedirs(work, exist_ok=True)
    job = os.path.join(work, f"job_{os.getpid()}_{abs(hash((unit, json.dumps(cfg, sort_keys=True)))) % 10**8}.json")
    json.dump(dict(unit=unit, cfg=cfg, model=model or {}, seeds=list(seeds)), open(job, "w"))
    try:
        p = subprocess.run([PY, "-W", "ignore", "-m", "svx.native", job], cwd=ROOT, capture_output=True, text=True,
                           timeout=900, env=dict(os.environ, PYTHONWARNINGS="ignore"))
        if p.returncode != 0:
            return dict(error=(p.stderr or "")[-2000:])
        return dict(runs=json.loads(p.stdout))
    except subprocess.TimeoutExpired:
        return dict(error="native replay timed out")
    finally:
        try:
            os.unlink(job)
        except OSError:
            pass


def small_model(r):
    """re-solve a refuted obligation's model is not available across processes; use the model as is,
    but refuse absurdly large extents for native arrays."""
    m = r.get("model") or {}
    big = [k for k, v in m.items() if isinstance(v, int) and "[" not in k and abs(v) > 400]
    return m, big


def function_hashes(functions):
    out = {}
    import importlib

    for q in sorted(set(functions)):
        mod, _, attr = q.partition(":")
        try:
            obj = importlib.import_module(mod)
            for part in attr.split("."):
                obj = getattr(obj, part)
            obj = inspect.unwrap(obj)
            src = inspect.getsource(obj)
            out[q] = dict(file=inspect.getsourcefile(obj), line=inspect.getsourcelines(obj)[1],
                          sha256=hashlib.sha256(src.encode()).hexdigest()[:16])
        except Exception as e:  # noqa: BLE001
            out[q] = dict(error=str(e)[:100])
    return out


def main(argv=None):
    ap = argparse.ArgumentParser()
    ap.add_argument("pid")
    ap.add_argument("--tier", default=os.environ.get("VERIF_TIER", "quick"))
    ap.add_argument("--replay")
    ap.add_argument("--update-lock", action="store_true")
    ap.add_argument("--jobs", type=int, default=int(os.environ.get("SVX_JOBS", "16")))
    ap.add_argument("--only", default=None, help="comma-separated unit names (debugging)")
    ap.add_argument("--selfcheck", action="store_true", help="run the units natively on random inputs (engine self-check)")
    ap.add_argument("-v", action="store_true")
    args = ap.parse_args(argv)
    pid, tier = args.pid, args.tier
    if tier not in ("quick", "thorough"):
        tier = "quick"
    seed = int(os.environ.get("VERIF_SEED", "0") or 0)
    t0 = time.time()
    os.environ.setdefault("SVX_WORK", os.path.join(ROOT, ".work"))
    os.makedirs(os.environ["SVX_WORK"], exist_ok=True)

    if args.replay:
        return replay_file(args.replay)
    if args.selfcheck:
        return selfcheck(pid, list(range(seed, seed + 3)), max(1, args.jobs // 2))

    from . import boot

    boot.boot_symbolic()
    from . import contract, loader, smt, sym

    loader.load_contracts()
    tasks = select_tasks(pid, tier)
    if args.only:
        only = set(args.only.split(","))
        tasks = [t for t in tasks if t[0] in only]
    if not tasks:
        print(f"ERROR property={pid}: no contract units registered")
        return 3
    timeout_ms = 20000 if tier == "quick" else 120000
    want = (pid,)
    work = [(n, c, want, timeout_ms) for n, c in tasks]
    results, metas = [], []
    ctxmp = mp.get_context("fork")
    unit_limit = int(os.environ.get("SVX_UNIT_LIMIT_S", "600" if timeout_ms <= 20000 else "3000"))
    remaining = list(work)
    for attempt in (1, 2):
        if not remaining:
            break
        done_keys = set()
        pool = ctxmp.Pool(min(args.jobs, len(remaining)))
        try:
            it = pool.imap_unordered(_task, remaining, chunksize=1)
            for _ in range(len(remaining)):
                try:
                    res, meta = it.next(timeout=unit_limit + 180)
                except mp.TimeoutError:
                    # a worker hung or died (forked processes can deadlock on inherited locks): never wait for ever
                    break
                results += res
                metas.append(meta)
                done_keys.add((meta["unit"], json.dumps(meta["cfg"], sort_keys=True, default=str)))
                if args.v:
                    print(f"  done {meta['unit']} {meta['cfg']} {meta['wall']}s", flush=True)
        finally:
            pool.terminate()
            pool.join()
        remaining = [w for w in remaining if (w[0], json.dumps(w[1], sort_keys=True, default=str)) not in done_keys]
    for name, cfg, _w, _t in remaining:  # still not finished after a second attempt in a fresh pool
        u = contract.UNITS[name]
        results.append(dict(name=f"{name}/engine[{contract.cfg_str(cfg)}]", props=list(u["props"]), kind="engine", verdict="error",
                            backend="svx", seconds=0.0, model=None, unit=name, cfg=cfg, goal="",
                            detail="worker process did not return (hung or died) in two attempts"))
        metas.append(dict(unit=name, cfg=cfg, paths=0, wall=0.0, functions=[]))
    results.sort(key=lambda r: r["name"])
    signatures = {_base(r["name"]): r for r in results if r["kind"] == "signature"}
    results = [r for r in results if r["kind"] != "signature"]

    # ---- classify ---------------------------------------------------------------------------
    errors = [r for r in results if r["verdict"] == "error"]
    refuted = [r for r in results if r["verdict"] == "refuted"]
    unknown = [r for r in results if r["verdict"] == "unknown"]
    proved = [r for r in results if r["verdict"] == "proved"]
    n_obl = len(results) - len(errors)
    known_names = {f["obligation"] for f in load_known(pid)[0]}

    # ---- vacuity guard: obligation names must match the committed lock -----------------------
    lock_path = os.path.join(ROOT, "locks", f"{pid}.{tier}.lock")
    names = sorted({_base(r["name"]) for r in results if r["verdict"] != "error"})
    lock_note = ""
    if args.update_lock:
        os.makedirs(os.path.dirname(lock_path), exist_ok=True)
        open(lock_path, "w").write("\n".join(names) + "\n")
        lock_note = "lock updated"
    elif os.path.exists(lock_path) and not args.only:
        locked = set(open(lock_path).read().split("\n")) - {""}
        missing = sorted(locked - set(names))
        # an obligation may legitimately be replaced by a `no_exception` failure of its unit
        failed_units = {r["unit"] for r in refuted + errors if r["kind"] in ("exception", "engine")}
        missing = [m for m in missing if m.split("/")[0] not in failed_units]
        if missing:
            errors.append(dict(name=f"{pid}/lock", verdict="error", kind="lock", unit="", cfg={},
                               detail=f"{len(missing)} obligation(s) of the committed lock vanished, e.g. {missing[:5]}",
                               props=[pid], backend="svx", seconds=0, model=None, goal=""))
        lock_note = f"lock ok ({len(locked)} names)" if not missing else "lock mismatch"
    else:
        lock_note = "no lock file"

    # ---- refutations: replay on the real code, known findings ----------------------------------
    known, fixed = load_known(pid)
    violations, known_hits, undecided = [], [], list(unknown)
    replay_dir = os.path.join(OUT, "replay", pid)
    groups = {}
    replays_done = {}
    pid_clause_names = {_base(r["name"]) for r in results}
    for r in refuted:
        groups.setdefault((r["unit"], json.dumps(r["cfg"], sort_keys=True), _base(r["name"])), []).append(r)
    for (unit, cfgs, base), rs in sorted(groups.items()):
        r = rs[0]
        kf = next((f for f in known if f["obligation"] == base), None)
        if kf is not None:
            sig = kf.get("signature")
            if sig is None or (sig in signatures and signatures[sig]["verdict"] == "proved"):
                known_hits.append((kf, r))
                continue
            # the obligation of a recorded finding fails, but not in the recorded way: a new violation
        model, big = small_model(r)
        replays_done[(unit, cfgs)] = replays_done.get((unit, cfgs), 0) + 1
        if big:
            rep = dict(error=f"model needs extents {big}; not replayed natively")
        elif replays_done[(unit, cfgs)] > 3 or sum(replays_done.values()) > 40:
            rep = dict(error="not replayed: other refuted obligations of the same unit configuration were replayed already")
        else:
            rep = native_replay(unit, r["cfg"], model)
        confirmed = False
        observed = None
        via = None
        if "runs" in rep:
            for run in rep["runs"]:
                for nm, ok, detail in run["clauses"]:
                    if ok is False and (nm == base or (r["kind"] == "exception" and nm.split("/")[-1].startswith("no_exception"))):
                        confirmed, observed, via = True, detail, nm
            if not confirmed:
                # the refuted clause itself cannot be evaluated on the compiled code (it talks about a contract stub or a
                # symbolic-only observation), but the SAME counterexample input makes another clause of this property
                # fail on the real code: that is a failing input for the property
                for run in rep["runs"]:
                    for nm, ok, detail in run["clauses"]:
                        if ok is False and not confirmed and nm in pid_clause_names and nm not in known_names:
                            confirmed, observed, via = True, detail, nm
        os.makedirs(replay_dir, exist_ok=True)
        fn = os.path.join(replay_dir, hashlib.sha1(base.encode()).hexdigest()[:12] + ".json")
        json.dump(dict(property=pid, obligation=base, all_paths=[x["name"] for x in rs], unit=unit, cfg=r["cfg"],
                       verdict="refuted", backend=r["backend"], solver_output=r["detail"], goal=r["goal"], model=model,
                       native_replay=rep, native_confirms=confirmed, observed=observed, failing_clause_on_real_code=via,
                       replay_cmd=f"./check {pid} --replay {os.path.relpath(fn, ROOT)}"), open(fn, "w"), indent=1)
        violations.append((base, fn, confirmed))

    # ---- undecided obligations / unsupported constructs: try the REAL code (bounded native stand-in) --
    # (a) candidate models (sat modulo axiomatised functions) are replayed; (b) units with an engine
    # error or an undecided obligation are sampled natively with a few seeds.  A clause that fails on
    # the real code is a violation with a concrete failing input; otherwise the verdict stays
    # undecided (exit 2) / checker error (exit 3).  Never counted as proved.
    native_sampled = 0
    suspects = {}
    for r in unknown + errors:
        if r.get("unit"):
            suspects.setdefault((r["unit"], json.dumps(r["cfg"], sort_keys=True)), []).append(r)
    confirmed_names = set()
    for j, ((unit, cfgs), rs) in enumerate(sorted(suspects.items())):
        if j >= 8:  # bounded effort: the remaining undecided units are reported as such
            break
        cfg = rs[0]["cfg"]
        tried = []
        for r in rs:
            if r.get("model") and len(tried) < 3:
                model, big = small_model(r)
                if not big:
                    tried.append((r, native_replay(unit, cfg, model)))
        seeds = list(range(seed, seed + (16 if tier == "quick" else 64)))
        tried.append((None, native_replay(unit, cfg, None, seeds=seeds)))
        native_sampled += len(seeds)
        for r, rep in tried:
            for run in rep.get("runs", []):
                for nm, ok, detail in run["clauses"]:
                    if ok is False and nm not in confirmed_names:
                        kf = next((f for f in known if f["obligation"] == nm), None)
                        if kf is not None:
                            continue
                        confirmed_names.add(nm)
                        os.makedirs(replay_dir, exist_ok=True)
                        fn = os.path.join(replay_dir, hashlib.sha1(("native:" + nm).encode()).hexdigest()[:12] + ".json")
                        json.dump(dict(property=pid, obligation=nm, unit=unit, cfg=cfg,
                                       verdict="fails on the real code (bounded native run)",
                                       why_native=(r["detail"][:500] if r else "unit undecided / outside the symbolic engine's reach"),
                                       model=(r.get("model") if r else None), seed=run.get("seed"),
                                       native_replay=dict(runs=[run]), native_confirms=True, observed=detail,
                                       replay_cmd=f"./check {pid} --replay {os.path.relpath(fn, ROOT)}"), open(fn, "w"), indent=1)
                        violations.append((nm, fn, True))

    # ---- bounded native stand-ins registered by the contracts (never counted as proved) ----------------
    bounded = []
    for name, u in contract.UNITS.items():
        if not u.get("native_check") or pid not in u["props"] or (args.only and name not in args.only.split(",")):
            continue
        seeds = list(range(seed, seed + (1 if tier == "quick" else 6)))
        for cfg in u["configs"]:
            rep = native_replay(name, cfg, None, seeds=seeds)
            nclauses, fails = 0, []
            for run in rep.get("runs", []):
                for nm, ok, detail in run["clauses"]:
                    nclauses += 1
                    if ok is False:
                        fails.append((nm, detail, run.get("seed")))
            bounded.append(dict(unit=name, cfg=cfg, seeds=seeds, clause_evaluations=nclauses, failures=len(fails),
                                error=rep.get("error", "")[-300:]))
            for nm, detail, sd in fails[:3]:
                os.makedirs(replay_dir, exist_ok=True)
                fn = os.path.join(replay_dir, hashlib.sha1(("bounded:" + nm + str(cfg)).encode()).hexdigest()[:12] + ".json")
                json.dump(dict(property=pid, obligation=nm, unit=name, cfg=cfg, verdict="fails on the real code (bounded native stand-in)",
                               seed=sd, model=None, native_confirms=True, observed=detail,
                               replay_cmd=f"./check {pid} --replay {os.path.relpath(fn, ROOT)}"), open(fn, "w"), indent=1)
                violations.append((nm, fn, True))

    # ---- evidence -------------------------------------------------------------------------------
    backends = {}
    for r in proved:
        b = backends.setdefault(r["backend"], dict(count=0, seconds=0.0))
        b["count"] += 1
        b["seconds"] = round(b["seconds"] + r["seconds"], 3)
    functions = sorted({f for m in metas for f in m["functions"]})
    samples = [dict(obligation=r["name"], verdict=r["verdict"], backend=r["backend"], seconds=r["seconds"])
               for r in (proved[:: max(1, len(proved) // 6)][:6] + refuted[:3] + unknown[:3])]
    discharged = len(proved)
    ev = dict(
        property_id=pid, tier=tier, seed=seed, level="proof",
        coverage=dict(
            obligations=n_obl - len({_base(r["name"]) for k, r in known_hits}), discharged=discharged,
            obligations_failing_as_recorded_known_findings=len(known_hits),
            checker_cmd=f"./check {pid} --tier {tier}",
            trusted_base=STANDING_ASSUMPTIONS + sorted({a for u in contract.UNITS.values() if pid in u["props"] for a in u.get("assumes", ())}),
            backends=backends,
            refuted=len(refuted), undecided=len(unknown), checker_errors=len(errors),
            bounded_native_runs_for_undecided_units=native_sampled,
            bounded_native_stand_ins=bounded,
            known_findings=[dict(obligation=k["obligation"], what=k["what"]) for k, _ in known_hits],
            units=len({m["unit"] for m in metas}), unit_configs=len(metas), paths=sum(m["paths"] for m in metas),
            functions_under_contract=function_hashes(functions),
            float_literals=dict(sorted(sym.FLOAT_LOG.items())[:40]),
            lock=lock_note,
            samples=samples,
            explanation="every obligation is `facts & guard => clause` generated by executing the real closure from /repo on "
                        "symbolic fields of symbolic extent; see DESIGN.md sections 3 and 5",
        ),
        assumptions=STANDING_ASSUMPTIONS,
        wall_s=round(time.time() - t0, 2),
        violations=len(violations),
    )
    os.makedirs(os.path.join(OUT, "evidence"), exist_ok=True)
    json.dump(ev, open(os.path.join(OUT, "evidence", f"{pid}.json"), "w"), indent=1)

    # ---- report -----------------------------------------------------------------------------------
    print(f"[{pid}] tier={tier} units={len(metas)} obligations={n_obl} proved={discharged} refuted={len(refuted)} "
          f"unknown={len(unknown)} errors={len(errors)} wall={time.time()-t0:.1f}s  backends={backends}  {lock_note}")
    for kf, r in known_hits:
        print(f"KNOWN-FINDING: property={pid} {kf['obligation']}: {kf['what']}")
    for r in errors[:20]:
        print(f"ERROR {r['name']}: {r['detail'][:1200]}")
    for r in unknown[:20]:
        print(f"UNDECIDED {r['name']}: {r['detail'][:300]}")
    violations.sort(key=lambda v: not v[2])  # those with a failing input on the real code first
    if len(violations) > 25:
        print(f"({len(violations)} refuted obligations; the first 25 are listed, all have replay files under {os.path.relpath(replay_dir, ROOT)})")
    for base, fn, confirmed in violations[:25]:
        rel = os.path.relpath(fn, ROOT)
        print(f"VIOLATION property={pid} replay={rel}" + ("" if confirmed else " no-failing-input-found"))
        print(f"   obligation {base}")
    if violations:
        return 1
    if errors:
        return 3
    if unknown:
        return 2
    return 0


def selfcheck(pid, seeds, jobs):
    """engine self-check: every unit natively (real compiled code) on random inputs; every clause
    must hold in floating point.  Not property evidence."""
    from . import boot
    boot.boot_symbolic()
    from . import contract, loader
    loader.load_contracts()
    tasks = [(n, c) for n, u in contract.UNITS.items() for c in u["configs"]
             if pid in ("all",) or pid in u["props"]]
    tasks = [(n, {k: v for k, v in c.items() if k != "_tier"}) for n, c in tasks]
    bad = 0
    from concurrent.futures import ThreadPoolExecutor
    with ThreadPoolExecutor(jobs) as ex:
        for (n, c), rep in zip(tasks, ex.map(lambda t: native_replay(t[0], t[1], None, seeds=seeds), tasks)):
            if "error" in rep:
                bad += 1
                print("SELFCHECK-ERROR", n, c, rep["error"][-800:])
                continue
            fails = sorted({(nm, d) for run in rep["runs"] for nm, ok, d in run["clauses"] if ok is False})
            nclauses = sum(len(run["clauses"]) for run in rep["runs"])
            if fails:
                bad += 1
                print("SELFCHECK-FAIL", n, c, fails[:4])
            else:
                print("selfcheck ok", n, c, nclauses, "clause evaluations", rep["runs"][0].get("interpreted") or "")
    return 3 if bad else 0


def replay_file(path):
    data = json.load(open(path if os.path.isabs(path) else os.path.join(ROOT, path)))
    rep = native_replay(data["unit"], data["cfg"], data.get("model"), seeds=[data.get("seed") or 0])
    print(json.dumps(rep, indent=1)[:6000])
    base = data["obligation"]
    bad = [c for run in rep.get("runs", []) for c in run["clauses"] if c[1] is False]
    hit = [c for c in bad if c[0] in (base, data.get("failing_clause_on_real_code")) or c[0].split("/")[-1].startswith("no_exception")]
    if hit:
        print(f"VIOLATION property={data['property']} replay={path}")
        return 1
    print("replay: the recorded obligation does not fail natively on this tree")
    return 0


if __name__ == "__main__":
    sys.exit(main())
