"""svx.npinterp -- numpy interpreter of a pystencils assignment list, used natively ONLY for the
kernels pystencils 2.0 cannot compile (4-D "vector" fields).  Same region semantics as svx.kernel."""
import numpy as np
import sympy as sp


def _is_access(e):
    return type(e).__name__ == "Access" and hasattr(e, "field")


class NumpyKernel:
    def __init__(self, assignments, config=None):
        self.assignments = list(assignments)
        self.islice = getattr(config, "iteration_slice", None) if config is not None else None
        self.ghost = 0
        for a in self.assignments:
            for acc in [x for x in a.rhs.atoms(sp.Symbol) if _is_access(x)] + [a.lhs]:
                for o in acc.offsets:
                    self.ghost = max(self.ghost, abs(int(o)))

    def __call__(self, **kw):
        for a in self.assignments:
            accs = sorted([x for x in a.rhs.atoms(sp.Symbol) if _is_access(x)], key=str)
            syms = sorted([x for x in a.rhs.atoms(sp.Symbol) if not _is_access(x)], key=str)
            dummies = [sp.Dummy(f"a{i}") for i in range(len(accs))]
            expr = a.rhs.xreplace(dict(zip(accs, dummies)))
            fn = sp.lambdify(dummies + syms, expr, modules="numpy")
            out = kw[a.lhs.field.name]
            nd = out.ndim
            g = self.ghost
            if self.islice is None:
                region = [(g, out.shape[d] - g) for d in range(nd)]
            else:
                region = [slice(*s.indices(out.shape[d]))[:2] if False else s.indices(out.shape[d])[:2]
                          for d, s in enumerate(self.islice)]
            if any(hi <= lo for lo, hi in region):
                continue
            args = []
            for acc in accs:
                arr = kw[acc.field.name]
                sl = tuple(slice(lo + int(o), hi + int(o)) for (lo, hi), o in zip(region, acc.offsets))
                args.append(arr[sl].copy())
            args += [kw[s.name] for s in syms]
            val = fn(*args)
            out[tuple(slice(lo, hi) for lo, hi in region)] = val
