"""svx.loader -- imports every contract module under /verif/contracts."""
import importlib
import os
import pkgutil
import sys

ROOT = os.path.dirname(os.path.dirname(os.path.abspath(__file__)))


def load_contracts():
    if ROOT not in sys.path:
        sys.path.insert(0, ROOT)
    import contracts

    for m in sorted(pkgutil.iter_modules(contracts.__path__), key=lambda m: m.name):
        if m.name.startswith("c_"):
            importlib.import_module(f"contracts.{m.name}")
