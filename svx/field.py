"""svx.field -- arrays over symbolic extents.

Buffer : named storage with (possibly symbolic) integer extents, arbitrary initial content
         (`cell` atoms = universally quantified start values) and an update log.
View   : numpy-like window on a buffer (basic indexing only): per view axis a buffer axis, a start
         and a length; other buffer axes fixed at a coordinate.  Implements the subset of the
         ndarray protocol that SophT's closures use; anything else raises Unsupported.
"""
from __future__ import annotations

import itertools

import numpy as np

from . import ctx
from .sym import BoolSym, Sym, Unsupported, all_of, ite, mk_atom

_counter = itertools.count()


def S(x) -> Sym:
    r = Sym.coerce(x)
    if r is None:
        raise Unsupported(f"not a scalar: {x!r}")
    return r


class Buffer:
    def __init__(self, name: str, extents, kind="real"):
        self.name = f"{name}"
        self.uid = next(_counter)
        self.extents = tuple(S(e) for e in extents)
        self.rank = len(self.extents)
        self.log: list = []  # (box, rhs(idx)->Sym, tag)
        self.kind = kind
        self.base_name = self.name  # cell-atom family of the initial content
        self.init = None  # optional defining function of the initial content: idx -> Sym
        self.refinements = []  # (box, predicate on the cell value): facts about the INITIAL content

    def base(self, idx) -> Sym:
        if self.init is not None:
            return S(self.init(tuple(idx)))
        return Sym.atom(mk_atom("cell", (self.base_name, tuple(i.key() for i in idx)), "real"))

    def read(self, idx, upto=None) -> Sym:
        upto = len(self.log) if upto is None else upto
        key = (self.uid, upto, tuple(i.key() for i in idx))
        memo = ctx.ST.read_memo
        r = memo.get(key)
        if r is not None:
            return r
        r = self._read(idx, upto)
        memo[key] = r
        return r

    def _refine(self, idx, v):
        """instantiate, at the cell just read, the universally quantified facts recorded by global
        predicates of the real code (`arr.any()`, `np.allclose(arr, c)` on an input array)"""
        for box, pred in self.refinements:
            if ctx.decide(membership(idx, box)) is True:
                ctx.assume(pred(v))
        return v

    def _read(self, idx, upto) -> Sym:
        k = upto - 1
        while k >= 0:
            box, rhs, _tag = self.log[k]
            inside = membership(idx, box)
            d = ctx.decide(inside)
            if d is True:
                return rhs(idx)
            if d is None:
                return ite(inside, rhs(idx), self.read(idx, k))
            k -= 1
        return self._refine(idx, self.base(idx)) if self.refinements else self.base(idx)

    def write(self, box, rhs, tag=""):
        self.log.append((tuple(box), rhs, tag))

    def full_view(self) -> "View":
        return View(self, [("ax", a, Sym.const(0), self.extents[a]) for a in range(self.rank)])

    def __repr__(self):
        return f"<Buffer {self.name} {self.extents}>"


def membership(idx, box) -> BoolSym:
    conds = []
    for i, (lo, hi) in zip(idx, box):
        if (hi - lo).same(1):
            conds.append(i == lo)
        else:
            conds.append(i >= lo)
            conds.append(i < hi)
    return all_of(*conds)


def new_field(name, shape) -> "View":
    return Buffer(name, shape).full_view()


class View:
    """axes: list over *buffer* axes? no -- list over view axes and fixed buffer axes, in buffer-axis
    order:  ('ax', buf_axis, start, length)  |  ('fix', buf_axis, coord)."""

    __array_priority__ = 2000.0

    def __init__(self, buf: Buffer, spec):
        self.buf = buf
        self.spec = list(spec)  # one entry per buffer axis, in buffer-axis order
        self.vaxes = [s for s in self.spec if s[0] == "ax"]

    # ---- ndarray protocol subset -----------------------------------------------------------
    @property
    def shape(self):
        return tuple(_maybe_int(s[3]) for s in self.vaxes)

    @property
    def ndim(self):
        return len(self.vaxes)

    @property
    def dtype(self):
        return np.dtype(np.float64)

    def view(self):
        return View(self.buf, self.spec)

    def copy(self):
        out = Buffer(self.buf.name + "_copy", [s[3] for s in self.vaxes]).full_view()
        out[...] = self
        return out

    def __len__(self):
        return self.shape[0]

    def __iter__(self):
        n = self.shape[0]
        if not isinstance(n, int):
            raise Unsupported("iteration over a symbolic-length axis")
        return (self[i] for i in range(n))

    def _index(self, key) -> "View":
        if not isinstance(key, tuple):
            key = (key,)
        key = _expand_ellipsis(key, self.ndim)
        new = []
        vi = 0
        for s in self.spec:
            if s[0] == "fix":
                new.append(s)
                continue
            _, a, start, length = s
            k = key[vi] if vi < len(key) else slice(None)
            vi += 1
            if isinstance(k, slice):
                if k.step not in (None, 1):
                    raise Unsupported("strided slice")
                lo, hi = _norm_slice(k, length)
                new.append(("ax", a, start + lo, hi - lo))
            else:
                i = S(k)
                if not i.is_int_sorted():
                    raise Unsupported(f"non-integer index {i}")
                if ctx.branch(i < 0):
                    i = i + length
                if not ctx.branch((i >= 0) & (i < length)):
                    raise IndexError(f"index {k} is out of bounds for axis with size {length}")
                new.append(("fix", a, start + i))
        if vi < len(key):
            raise IndexError("too many indices for array")
        return View(self.buf, new)

    def __getitem__(self, key):
        v = self._index(key)
        if v.ndim == 0:
            return v.at(())
        return v

    def __setitem__(self, key, value):
        self._index(key)._assign(value, "setitem")

    def _assign(self, value, tag):
        if isinstance(value, View) and value.buf is self.buf and _same_spec(value.spec, self.spec):
            return  # `a[k] += x` ends with a[k] = a[k]: nothing to do
        if isinstance(value, np.ndarray) and value.ndim and value.dtype == object:
            sh = self.concrete_shape()
            vals = np.broadcast_to(value, sh)
            for idx in np.ndindex(*sh):
                bidx = self.buf_index(idx)
                v = S(vals[idx])
                self.buf.write([(b, b + 1) for b in bidx], lambda _i, v=v: v, tag)
            return
        if isinstance(value, View):
            src = value
            if src.ndim > self.ndim:
                raise ValueError("could not broadcast input array")
            # align trailing axes (numpy broadcasting)
            pad = self.ndim - src.ndim
            pairs = []
            for j, t in enumerate(self.vaxes):
                if j < pad:
                    pairs.append(None)
                    continue
                sv = src.vaxes[j - pad]
                same = ctx.decide(sv[3] == t[3])
                if same is True:
                    pairs.append(("same", sv))
                    continue
                one = ctx.decide(sv[3] == 1)
                if one is True:
                    pairs.append(("bcast", sv))
                    continue
                if same is False and one is False:
                    raise ValueError(
                        f"could not broadcast input array from shape {src.shape} into shape {self.shape}")
                # open: fork
                if ctx.branch(sv[3] == t[3]):
                    pairs.append(("same", sv))
                elif ctx.branch(sv[3] == 1):
                    pairs.append(("bcast", sv))
                else:
                    raise ValueError(
                        f"could not broadcast input array from shape {src.shape} into shape {self.shape}")
            upto = len(src.buf.log)
            tspec = self.spec
            sspec = src.spec

            def rhs(idx, pairs=pairs, upto=upto, tspec=tspec, sspec=sspec, sbuf=src.buf):
                # view coordinate of idx in the target
                vc = []
                for s in tspec:
                    if s[0] == "ax":
                        vc.append(idx[s[1]] - s[2])
                sidx = [None] * sbuf.rank
                for s in sspec:
                    if s[0] == "fix":
                        sidx[s[1]] = s[2]
                for j, pr in enumerate(pairs):
                    if pr is None:
                        continue
                    mode, sv = pr
                    sidx[sv[1]] = sv[2] + (vc[j] if mode == "same" else 0)
                return sbuf.read(sidx, upto)

            self.buf.write(self._box(), rhs, tag)
        elif hasattr(value, "fn") and hasattr(value, "shape"):  # svx.symnp.Lazy element-wise expression
            lz = value
            if lz.ndim > self.ndim:
                raise ValueError("could not broadcast input array")
            pad = self.ndim - lz.ndim
            modes = []
            for j, t in enumerate(self.vaxes):
                if j < pad:
                    modes.append(None)
                    continue
                n = S(lz.shape[j - pad])
                if ctx.decide(n == t[3]) is True:
                    modes.append("same")
                elif ctx.decide(n == 1) is True:
                    modes.append("bcast")
                elif ctx.branch(n == t[3]):
                    modes.append("same")
                elif ctx.branch(n == 1):
                    modes.append("bcast")
                else:
                    raise ValueError(
                        f"could not broadcast input array from shape {lz.shape} into shape {self.shape}")
            tspec = self.spec

            def rhs(idx, modes=modes, tspec=tspec, lz=lz):
                vc = [idx[s[1]] - s[2] for s in tspec if s[0] == "ax"]
                return S(lz.fn(tuple(vc[j] if m == "same" else Sym.const(0)
                                     for j, m in enumerate(modes) if m is not None)))

            self.buf.write(self._box(), rhs, tag)
        elif isinstance(value, np.ndarray) and value.ndim:
            raise Unsupported("assignment of a concrete ndarray into a symbolic field")
        else:
            val = S(value)
            self.buf.write(self._box(), lambda _idx, val=val: val, tag)

    def fill(self, value):
        self._assign(value, "fill")

    # ---- global predicates of the real code on an (unmodified) input array --------------------------
    def _global_predicate(self, name, cell_pred):
        """fork on `all cells satisfy cell_pred`: True path records the fact for every cell read later;
        False path introduces a witness cell violating it.  Returns the truth value on this path."""
        if self.buf.log:
            raise Unsupported(f"{name} on a field that was already written in this execution")
        tag = ",".join(f"{s[1]}={s[2]}" for s in self.spec if s[0] == "fix")
        z = Sym.I(f"{name}({self.buf.name}|{tag})")
        ctx.assume(z >= 0)
        ctx.assume(z <= 1)
        if ctx.branch(z == 1):
            self.buf.refinements.append((self._box(), cell_pred))
            return True
        w = []
        for a, s in enumerate(self.vaxes):
            v = Sym.I(f"{name}_witness_{self.buf.name}_{a}")
            ctx.assume(v >= 0)
            ctx.assume(v < S(s[3]))
            w.append(v)
        ctx.assume(~cell_pred(self.at(w)))
        return False

    def any(self):
        return not self._global_predicate("allzero", lambda v: v == 0)

    def all(self):
        raise Unsupported("View.all()")

    def concrete_shape(self):
        sh = self.shape
        if not all(isinstance(n, int) for n in sh):
            raise Unsupported(f"a concrete shape is required here, got {sh}")
        return sh

    def to_object_array(self, upto=None):
        """object ndarray of the current cell values (concrete shape only)."""
        sh = self.concrete_shape()
        out = np.empty(sh, dtype=object)
        for idx in np.ndindex(*sh):
            out[idx] = self.at(idx, upto)
        return out

    def _inplace(self, other, op, tag):
        upto = len(self.buf.log)
        buf = self.buf
        if isinstance(other, np.ndarray) and other.ndim:
            # small concrete window updated cell by cell (numpy broadcasting of the operand)
            sh = self.concrete_shape()
            vals = np.broadcast_to(other, sh)
            for idx in np.ndindex(*sh):
                bidx = self.buf_index(idx)
                v = S(vals[idx])

                def rhs(i, upto=upto, v=v):
                    return op(buf.read(i, upto), v)

                buf.write([(b, b + 1) for b in bidx], rhs, tag)
            return self
        if isinstance(other, View) or (hasattr(other, "fn") and hasattr(other, "shape")):
            raise Unsupported("in-place op with a symbolic field operand (not used by SophT)")
        val = S(other)

        def rhs(idx, upto=upto, val=val):
            return op(buf.read(idx, upto), val)

        self.buf.write(self._box(), rhs, tag)
        return self

    def __imul__(self, o):
        return self._inplace(o, lambda a, b: a * b, "imul")

    def __iadd__(self, o):
        return self._inplace(o, lambda a, b: a + b, "iadd")

    def __isub__(self, o):
        return self._inplace(o, lambda a, b: a - b, "isub")

    def __itruediv__(self, o):
        return self._inplace(o, lambda a, b: a / b, "idiv")

    # complex buffers are modelled with a trailing (re, im) axis of length 2
    @property
    def real(self):
        if self.buf.kind != "complex":
            return self
        return self._fix_last(0)

    @property
    def imag(self):
        if self.buf.kind != "complex":
            raise Unsupported(".imag of a real field")
        return self._fix_last(1)

    def _fix_last(self, comp):
        spec = list(self.spec)
        s = spec[-1]
        if s[0] != "ax" or s[1] != self.buf.rank - 1:
            raise Unsupported("complex component axis already fixed")
        spec[-1] = ("fix", s[1], s[2] + comp)
        v = View(self.buf, spec)
        return v

    # ---- svx API -------------------------------------------------------------------------
    def _box(self):
        box = []
        for s in self.spec:
            if s[0] == "fix":
                box.append((s[2], s[2] + 1))
            else:
                box.append((s[2], s[2] + s[3]))
        return box

    def buf_index(self, c):
        """view cell (tuple over view axes) -> buffer index (tuple over buffer axes)."""
        idx = []
        vi = 0
        for s in self.spec:
            if s[0] == "fix":
                idx.append(s[2])
            else:
                idx.append(s[2] + S(c[vi]))
                vi += 1
        return idx

    def at(self, c, upto=None) -> Sym:
        """current (or log-position `upto`) value at view cell c."""
        return self.buf.read(self.buf_index(c), upto)

    def old(self, c) -> Sym:
        """initial value (before anything in the log) at view cell c."""
        idx = self.buf_index(c)
        v = self.buf.base(idx)
        return self.buf._refine(idx, v) if self.buf.refinements else v

    def in_bounds(self, c) -> BoolSym:
        return all_of(*[(S(ci) >= 0) & (S(ci) < s[3]) for ci, s in zip(c, self.vaxes)])

    def __repr__(self):
        return f"<View of {self.buf.name} shape={self.shape}>"

    # anything numpy might try on us
    def __array__(self, *a, **k):
        raise Unsupported("conversion of a symbolic field to a concrete ndarray")

    __array_ufunc__ = None  # numpy binary operators defer to View.__r*__

    def __array_function__(self, func, types, args, kwargs):
        # numpy functions called by the real code on a symbolic field are routed to svx.symnp
        from . import symnp
        impl = getattr(symnp.SymNp, func.__name__, None)
        if impl is None or func.__name__ in ("ndarray",):
            raise Unsupported(f"numpy function {func.__name__} on a symbolic field")
        return impl(symnp.SymNp(), *args, **kwargs)


def _same_spec(a, b):
    if len(a) != len(b):
        return False
    for x, y in zip(a, b):
        if x[0] != y[0] or x[1] != y[1] or not x[2].same(y[2]):
            return False
        if x[0] == "ax" and not S(x[3]).same(S(y[3])):
            return False
    return True


def _maybe_int(s: Sym):
    if s.is_const():
        c = s.const_value()
        if c.denominator == 1:
            return int(c)
    return s


def _expand_ellipsis(key, ndim):
    if any(k is Ellipsis for k in key):
        i = [j for j, k in enumerate(key) if k is Ellipsis]
        if len(i) > 1:
            raise IndexError("an index can only have a single ellipsis")
        i = i[0]
        fill = ndim - (len(key) - 1)
        key = key[:i] + (slice(None),) * fill + key[i + 1:]
    if any(k is None for k in key):
        raise Unsupported("newaxis")
    return key


def _norm_slice(k: slice, n: Sym):
    """numpy/python slice normalisation on an axis of (symbolic) length n -> (lo, hi), lo<=hi."""
    def norm(v, default):
        if v is None:
            return default
        v = S(v)
        if ctx.branch(v < 0):
            v = v + n
            if ctx.branch(v < 0):
                v = Sym.const(0)
        elif ctx.branch(v > n):
            v = n
        return v

    lo = norm(k.start, Sym.const(0))
    hi = norm(k.stop, n)
    if ctx.branch(hi < lo):
        hi = lo
    return lo, hi
