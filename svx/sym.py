"""svx.sym -- exact real/integer terms for the symbolic execution of SophT's real source.

A `Sym` is a Laurent polynomial with Fraction coefficients over hash-consed *atoms*:
  var    named real / int symbol
  cell   A<buffer>(i, j, ...)     initial content of a buffer at an (integer, affine) index
  inv    1/q for a multi-term polynomial q (single-term denominators become negative exponents)
  ite    if-then-else on a BoolSym
  sqrt sin cos abs floor log     opaque functions (axiomatised when sent to the solver)
  pi
Arithmetic keeps the polynomial normal form, so ring identities are decided by `a - b` being the
zero polynomial.  `BoolSym` is a small formula language over comparisons `poly (<|<=|==|!=) 0`.

Python float literals entering arithmetic are read as the mathematics the author wrote
(float-literal policy, DESIGN 3.2): p/q with q <= 4096 if within 2^-50 relative, else (p/q)*pi,
else the exact binary value.  Every conversion is logged in FLOAT_LOG.
"""
from __future__ import annotations

import math
import numbers
from fractions import Fraction

import numpy as np

F0 = Fraction(0)
F1 = Fraction(1)


class Unsupported(Exception):
    """A construct the engine does not model: never turned into a verdict (exit 3)."""


# --------------------------------------------------------------------------------------------
# atoms
# --------------------------------------------------------------------------------------------
class Atom:
    __slots__ = ("id", "kind", "args", "sort", "z3")

    def __init__(self, id_, kind, args, sort):
        self.id = id_
        self.kind = kind
        self.args = args
        self.sort = sort  # 'int' | 'real'
        self.z3 = None

    def __repr__(self):
        return atom_str(self)


ATOMS: list[Atom] = []
_ATOM_INDEX: dict = {}
FLOAT_LOG: dict = {}
DENOMS: dict = {}  # key -> Sym : every non-constant denominator met (definedness obligations)


def mk_atom(kind, args, sort="real") -> Atom:
    key = (kind, args)
    a = _ATOM_INDEX.get(key)
    if a is None:
        a = Atom(len(ATOMS), kind, args, sort)
        ATOMS.append(a)
        _ATOM_INDEX[key] = a
    return a


def atom_str(a: Atom) -> str:
    k = a.kind
    if k == "var":
        return a.args[0]
    if k == "pi":
        return "pi"
    if k == "cell":
        return f"{a.args[0]}[{', '.join(str(Sym._from_key(x)) for x in a.args[1])}]"
    if k == "ite":
        return f"ite({BoolSym._from_key(a.args[0])}, {Sym._from_key(a.args[1])}, {Sym._from_key(a.args[2])})"
    if k == "fn":
        return f"{a.args[0]}({', '.join(str(Sym._from_key(x)) for x in a.args[1])})"
    return f"{k}({', '.join(str(Sym._from_key(x)) for x in a.args)})"


# --------------------------------------------------------------------------------------------
# float literal policy
# --------------------------------------------------------------------------------------------
def _frac_of_float(x: float):
    """-> (Fraction, times_pi: bool)"""
    if x == 0.0:
        return F0, False
    if not math.isfinite(x):
        raise Unsupported(f"non-finite literal {x!r}")
    ex = Fraction(x)
    cand = ex.limit_denominator(4096)
    if abs(cand - ex) <= abs(ex) * Fraction(1, 2**50):
        if cand != ex:
            FLOAT_LOG[repr(x)] = str(cand)
        return cand, False
    ex_pi = Fraction(x / math.pi)
    cand = ex_pi.limit_denominator(4096)
    if cand != 0 and abs(cand - ex_pi) <= abs(ex_pi) * Fraction(1, 2**48):
        FLOAT_LOG[repr(x)] = f"{cand}*pi"
        return cand, True
    ex_ipi = Fraction(x * math.pi)
    cand = ex_ipi.limit_denominator(4096)
    if cand != 0 and abs(cand - ex_ipi) <= abs(ex_ipi) * Fraction(1, 2**48):
        FLOAT_LOG[repr(x)] = f"{cand}/pi"
        return cand, "inv"
    if x > 0:
        ex_sq = Fraction(x * x / math.pi)
        cand = ex_sq.limit_denominator(64)
        if cand != 0 and abs(cand - ex_sq) <= abs(ex_sq) * Fraction(1, 2**46):
            FLOAT_LOG[repr(x)] = f"sqrt({cand}*pi)"
            return cand, "sqrtpi"
    FLOAT_LOG[repr(x)] = f"exact {ex}"
    return ex, False


# --------------------------------------------------------------------------------------------
# Sym
# --------------------------------------------------------------------------------------------
def _mono_mul(m1, m2):
    if not m1:
        return m2
    if not m2:
        return m1
    d = dict(m1)
    for a, e in m2:
        ne = d.get(a, 0) + e
        if ne:
            d[a] = ne
        else:
            del d[a]
    return tuple(sorted(d.items()))


class Sym:
    __slots__ = ("p", "_key", "_z3")

    def __init__(self, p=None):
        self.p = p if p is not None else {}
        self._key = None
        self._z3 = None

    # ---- construction --------------------------------------------------------------------
    @staticmethod
    def const(c) -> "Sym":
        c = Fraction(c)
        return Sym({(): c} if c else {})

    @staticmethod
    def atom(a: Atom, e: int = 1) -> "Sym":
        return Sym({((a.id, e),): F1})

    @staticmethod
    def R(name: str) -> "Sym":
        return Sym.atom(mk_atom("var", (name,), "real"))

    @staticmethod
    def I(name: str) -> "Sym":
        return Sym.atom(mk_atom("var", (name,), "int"))

    @staticmethod
    def pi() -> "Sym":
        return Sym.atom(mk_atom("pi", (), "real"))

    @staticmethod
    def coerce(x):
        """-> Sym or None (None: not a scalar we know)."""
        if isinstance(x, Sym):
            return x
        if isinstance(x, BoolSym):
            return ite(x, Sym.const(1), Sym.const(0))
        if isinstance(x, (bool, np.bool_)):
            return Sym.const(int(x))
        if isinstance(x, (int, np.integer)):
            return Sym.const(int(x))
        if isinstance(x, Fraction):
            return Sym.const(x)
        if isinstance(x, (float, np.floating)):
            fr, times_pi = _frac_of_float(float(x))
            s = Sym.const(fr)
            if times_pi == "inv":
                return s * Sym.pi().inverse()
            if times_pi == "sqrtpi":
                return (s * Sym.pi()).sqrt()
            return s * Sym.pi() if times_pi else s
        if isinstance(x, numbers.Rational):
            return Sym.const(Fraction(x))
        if isinstance(x, np.ndarray) and x.ndim == 0:
            return Sym.coerce(x.item())
        return None

    # ---- keys ----------------------------------------------------------------------------
    def key(self):
        k = self._key
        if k is None:
            k = self._key = tuple(sorted(self.p.items()))
        return k

    @staticmethod
    def _from_key(k) -> "Sym":
        s = Sym(dict(k))
        s._key = k
        return s

    def __hash__(self):
        return hash(self.key())

    # ---- inspection ----------------------------------------------------------------------
    def is_const(self) -> bool:
        return not self.p or (len(self.p) == 1 and () in self.p)

    def const_value(self) -> Fraction:
        return self.p.get((), F0)

    def is_zero(self) -> bool:
        return not self.p

    def atoms(self):
        out = set()
        for m in self.p:
            for a, _ in m:
                out.add(a)
        return out

    def is_int_sorted(self) -> bool:
        for m, c in self.p.items():
            if c.denominator != 1:
                return False
            for a, e in m:
                if e < 0 or ATOMS[a].sort != "int":
                    return False
        return True

    def as_affine(self):
        """-> (const, {atom_id: coeff}) or None if not affine."""
        c0 = F0
        lin = {}
        for m, c in self.p.items():
            if not m:
                c0 = c
            elif len(m) == 1 and m[0][1] == 1:
                lin[m[0][0]] = c
            else:
                return None
        return c0, lin

    # ---- arithmetic ----------------------------------------------------------------------
    def __add__(self, o):
        if isinstance(o, np.ndarray) and o.ndim:
            return NotImplemented
        o = Sym.coerce(o)
        if o is None:
            return NotImplemented
        if not o.p:
            return self
        if not self.p:
            return o
        d = dict(self.p)
        for m, c in o.p.items():
            v = d.get(m)
            if v is None:
                d[m] = c
            else:
                v = v + c
                if v:
                    d[m] = v
                else:
                    del d[m]
        return Sym(d)

    __radd__ = __add__

    def __neg__(self):
        return Sym({m: -c for m, c in self.p.items()})

    def __pos__(self):
        return self

    def __sub__(self, o):
        if isinstance(o, np.ndarray) and o.ndim:
            return NotImplemented
        o = Sym.coerce(o)
        if o is None:
            return NotImplemented
        return self + (-o)

    def __rsub__(self, o):
        o = Sym.coerce(o)
        if o is None:
            return NotImplemented
        return o + (-self)

    def __mul__(self, o):
        if isinstance(o, np.ndarray) and o.ndim:
            return NotImplemented
        o = Sym.coerce(o)
        if o is None:
            return NotImplemented
        if not self.p or not o.p:
            return Sym()
        a, b = (self.p, o.p) if len(self.p) <= len(o.p) else (o.p, self.p)
        if len(a) == 1:
            (m1, c1), = a.items()
            if not m1:
                if c1 == 1:
                    return self if b is self.p else o
                return Sym({m: c * c1 for m, c in b.items()})
        d = {}
        for m1, c1 in a.items():
            for m2, c2 in b.items():
                m = _mono_mul(m1, m2)
                v = d.get(m)
                if v is None:
                    d[m] = c1 * c2
                else:
                    v = v + c1 * c2
                    if v:
                        d[m] = v
                    else:
                        del d[m]
        return Sym(d)

    __rmul__ = __mul__

    def inverse(self, note=True) -> "Sym":
        """1/self.  note=False: a proof device of a contract (no definedness obligation)."""
        if not self.p:
            raise ZeroDivisionError("symbolic division by the zero polynomial")
        if len(self.p) == 1:
            (m, c), = self.p.items()
            if m and note:
                _note_denominator(self)
            return Sym({tuple((a, -e) for a, e in m): 1 / c})
        # multi-term: primitive normalisation, then opaque inverse atom
        lead = self.key()[0][1]
        q = self if lead == 1 else self * Sym.const(1 / lead)
        if note:
            _note_denominator(q)
        return Sym({((mk_atom("inv", (q.key(),)).id, 1),): 1 / lead})

    def __truediv__(self, o):
        if isinstance(o, np.ndarray) and o.ndim:
            return NotImplemented
        o = Sym.coerce(o)
        if o is None:
            return NotImplemented
        if len(o.p) > 1 and self.p:
            q = exact_quotient(self, o)
            if q is not None:
                _note_denominator(o)
                return q
        return self * o.inverse()

    def __rtruediv__(self, o):
        o = Sym.coerce(o)
        if o is None:
            return NotImplemented
        return o * self.inverse()

    def __pow__(self, n):
        if isinstance(n, Sym):
            if n.is_const():
                n = n.const_value()
            else:
                raise Unsupported("symbolic exponent")
        if isinstance(n, (float, np.floating)):
            if float(n) == 0.5:
                return self.sqrt()
            if float(n) != int(n):
                if float(2 * n) == int(2 * n) and n > 0:  # x ** (k + 1/2) = x**k * sqrt(x)
                    return (self ** int(float(n) - 0.5)) * self.sqrt()
                raise Unsupported(f"power {n}")
            n = int(n)
        if isinstance(n, Fraction):
            if n == Fraction(1, 2):
                return self.sqrt()
            if n.denominator != 1:
                raise Unsupported(f"power {n}")
            n = int(n)
        n = int(n)
        if n < 0:
            return (self ** (-n)).inverse()
        r = Sym.const(1)
        b = self
        while n:
            if n & 1:
                r = r * b
            n >>= 1
            if n:
                b = b * b
        return r

    def __rpow__(self, b):
        raise Unsupported("symbolic exponent")

    def __floordiv__(self, o):
        if isinstance(o, np.ndarray) and o.ndim:
            return NotImplemented
        o = Sym.coerce(o)
        if o is None:
            return NotImplemented
        return (self / o).floor()

    def __rfloordiv__(self, o):
        o = Sym.coerce(o)
        if o is None:
            return NotImplemented
        return (o / self).floor()

    def __abs__(self):
        return self.fabs()

    # ---- functions (numpy calls these element methods on object arrays) -------------------
    def _fn(self, name, sort="real"):
        return Sym.atom(mk_atom(name, (self.key(),), sort))

    def sqrt(self):
        if self.is_const():
            c = self.const_value()
            if c >= 0:
                n, d = math.isqrt(c.numerator), math.isqrt(c.denominator)
                if n * n == c.numerator and d * d == c.denominator:
                    return Sym.const(Fraction(n, d))
        # sqrt(c^2 * m^2) patterns are left to the solver (t >= 0, t^2 = arg)
        return self._fn("sqrt")

    def fabs(self):
        if self.is_const():
            return Sym.const(abs(self.const_value()))
        from . import ctx as _ctx

        if _ctx.decide(BoolSym.cmp("le", -self)) is True:  # self >= 0 under the current facts
            return self
        if _ctx.decide(BoolSym.cmp("le", self)) is True:
            return -self
        k = self.key()
        # canonical sign: abs(-q) == abs(q)
        if k[0][1] < 0:
            return (-self)._fn("abs")
        return self._fn("abs")

    absolute = fabs

    def sin(self):
        return _trig("sin", self)

    def cos(self):
        return _trig("cos", self)

    def log(self):
        if self.is_const() and self.const_value() == 1:
            return Sym()
        return self._fn("log")

    def exp(self):
        if self.is_zero():
            return Sym.const(1)
        return self._fn("exp")

    def floor(self):
        if self.is_const():
            return Sym.const(math.floor(self.const_value()))
        if self.is_int_sorted():
            return self
        # Floor(m + s) = m for integer m and a remainder s with 0 <= s < 1 (side condition
        # decided by the context): split off the integer-sorted part
        ipart, rest = {}, {}
        for m, c in self.p.items():
            if c.denominator == 1 and all(e > 0 and ATOMS[a].sort == "int" for a, e in m):
                ipart[m] = c
            else:
                rest[m] = c
        if ipart and rest:
            from . import ctx as _ctx

            r = Sym(rest)
            if _ctx.decide((r >= 0) & (r < 1)) is True:
                return Sym(ipart)
        return Sym.atom(mk_atom("floor", (self.key(),), "int"))

    def rint(self):
        return (self + Fraction(1, 2)).floor()

    def conjugate(self):
        return self

    @property
    def real(self):
        return self

    # ---- comparisons ---------------------------------------------------------------------
    def __lt__(self, o):
        o = Sym.coerce(o)
        if o is None:
            return NotImplemented
        return BoolSym.cmp("lt", self - o)

    def __le__(self, o):
        o = Sym.coerce(o)
        if o is None:
            return NotImplemented
        return BoolSym.cmp("le", self - o)

    def __gt__(self, o):
        o = Sym.coerce(o)
        if o is None:
            return NotImplemented
        return BoolSym.cmp("lt", o - self)

    def __ge__(self, o):
        o = Sym.coerce(o)
        if o is None:
            return NotImplemented
        return BoolSym.cmp("le", o - self)

    def __eq__(self, o):
        o2 = Sym.coerce(o)
        if o2 is None:
            return NotImplemented
        return BoolSym.cmp("eq", self - o2)

    def __ne__(self, o):
        o2 = Sym.coerce(o)
        if o2 is None:
            return NotImplemented
        return ~BoolSym.cmp("eq", self - o2)

    def same(self, o) -> bool:
        """Syntactic identity of normal forms (no solver)."""
        o = Sym.coerce(o)
        return self.key() == o.key()

    # ---- conversion to Python numbers ----------------------------------------------------
    def __bool__(self):
        if self.is_const():
            return bool(self.const_value())
        from . import ctx as _ctx

        return _ctx.branch(~BoolSym.cmp("eq", self))

    def __index__(self):
        if self.is_const():
            c = self.const_value()
            if c.denominator == 1:
                return int(c)
        from . import ctx as _ctx

        v = _ctx.unique_int_value(self)
        if v is None:
            raise Unsupported(f"a concrete integer is required here, got {self}")
        return v

    def __int__(self):
        if self.is_const():
            return int(self.const_value())
        return self.__index__()

    def __float__(self):
        if self.is_const():
            return float(self.const_value())
        raise Unsupported(f"float() of symbolic value {self}")

    # ---- sympy embedding (generator-time parameters inside pystencils expressions) --------
    def _sympy_(self):
        import sympy as sp

        from . import kernel as _k

        return _k.embed_sym(self)

    # ---- substitution / evaluation --------------------------------------------------------
    def subst(self, mapping: dict) -> "Sym":
        """mapping: atom_id -> Sym.  Atoms nested inside other atoms are substituted too."""
        return _subst(self, mapping, {})

    def __repr__(self):
        if not self.p:
            return "0"
        out = []
        for m, c in sorted(self.p.items()):
            fs = []
            for a, e in m:
                s = atom_str(ATOMS[a])
                fs.append(s if e == 1 else f"{s}^{e}")
            body = "*".join(fs)
            if not body:
                out.append(str(c))
            elif c == 1:
                out.append(body)
            elif c == -1:
                out.append("-" + body)
            else:
                out.append(f"{c}*{body}")
        return " + ".join(out).replace("+ -", "- ")


def _clear_negative(p: "Sym"):
    """p * M with M the monomial that makes every exponent non-negative -> (poly, M as exponent dict)"""
    low = {}
    for m in p.p:
        seen = set()
        for a, e in m:
            seen.add(a)
            if e < low.get(a, 0):
                low[a] = e
    if not low:
        return p, {}
    shift = tuple(sorted((a, -e) for a, e in low.items()))
    return p * Sym({shift: F1}), {a: -e for a, e in low.items()}


def exact_quotient(p: "Sym", q: "Sym"):
    """r with p == r*q as Laurent polynomials, or None.  (Multivariate division with a fixed
    monomial order; used so that (L - L/n)/(n - 1) normalises to L/n.)"""
    P, sp = _clear_negative(p)
    Q, sq = _clear_negative(q)

    order = sorted(P.atoms() | Q.atoms())

    def lead(poly):  # pure lexicographic order on the exponent vectors: a monomial order
        return max(poly.p.items(), key=lambda kv: tuple(dict(kv[0]).get(a, 0) for a in order))

    lq_m, lq_c = lead(Q)
    lq = dict(lq_m)
    R = Sym()
    rem = P
    for _ in range(200):
        if not rem.p:
            break
        lm, lc = lead(rem)
        d = dict(lm)
        for a, e in lq.items():
            if d.get(a, 0) < e:
                return None
            d[a] -= e
            if d[a] == 0:
                del d[a]
        t = Sym({tuple(sorted(d.items())): lc / lq_c})
        R = R + t
        rem = rem - t * Q
    else:
        return None
    if rem.p:
        return None
    # p = P / Mp, q = Q / Mq  =>  p/q = (P/Q) * Mq / Mp
    corr = {}
    for a, e in sq.items():
        corr[a] = corr.get(a, 0) + e
    for a, e in sp.items():
        corr[a] = corr.get(a, 0) - e
    corr = tuple(sorted((a, e) for a, e in corr.items() if e))
    return R * Sym({corr: F1}) if corr else R


def _note_denominator(q: Sym):
    """every non-constant denominator becomes a definedness obligation `q != 0` under the facts
    known when the division happens (collected per path in ctx)."""
    from . import ctx as _ctx

    k = q.key()
    d = _ctx.ST.denoms
    if k not in d:
        d[k] = (q, list(_ctx.ST.facts))


def _trig(name, x: Sym) -> Sym:
    """sin/cos with exact reduction of constant multiples of pi/2 in the argument."""
    pi_id = mk_atom("pi", (), "real").id
    pim = ((pi_id, 1),)
    cpi = x.p.get(pim, F0)
    if cpi:
        q2 = cpi * 2  # number of quarter turns
        k = math.floor(q2)
        if k:
            rest = x - Sym({pim: Fraction(k, 2)})
            k %= 4
            if name == "sin":
                table = [("sin", 1), ("cos", 1), ("sin", -1), ("cos", -1)]
            else:
                table = [("cos", 1), ("sin", -1), ("cos", -1), ("sin", 1)]
            fn, sg = table[k]
            r = _trig0(fn, rest)
            return r if sg == 1 else -r
    return _trig0(name, x)


def _trig0(name, x: Sym) -> Sym:
    if x.is_zero():
        return Sym.const(0 if name == "sin" else 1)
    # parity: canonical sign of the argument
    if x.key()[0][1] < 0:
        r = (-x)._fn(name)
        return -r if name == "sin" else r
    return x._fn(name)


def _subst(s: Sym, mapping, memo) -> Sym:
    if not mapping:
        return s
    touched = False
    acc = Sym()
    for m, c in s.p.items():
        term = Sym.const(c)
        for a, e in m:
            rep = _subst_atom(a, mapping, memo)
            if rep is not None:
                touched = True
                term = term * (rep**e)
            else:
                term = term * Sym({((a, e),): F1})
        acc = acc + term
    return acc if touched else s


def _subst_atom(aid, mapping, memo):
    """-> replacement Sym or None if unchanged."""
    if aid in mapping:
        return mapping[aid]
    if aid in memo:
        return memo[aid]
    a = ATOMS[aid]
    rep = None
    if a.kind in ("var", "pi"):
        rep = None
    elif a.kind == "cell":
        new = [_subst(Sym._from_key(k), mapping, memo) for k in a.args[1]]
        if any(n.key() != k for n, k in zip(new, a.args[1])):
            rep = Sym.atom(mk_atom("cell", (a.args[0], tuple(n.key() for n in new)), a.sort))
    elif a.kind == "ite":
        c = BoolSym._from_key(a.args[0]).subst(mapping, memo)
        x = _subst(Sym._from_key(a.args[1]), mapping, memo)
        y = _subst(Sym._from_key(a.args[2]), mapping, memo)
        if c.key() != a.args[0] or x.key() != a.args[1] or y.key() != a.args[2]:
            rep = ite(c, x, y)
    elif a.kind == "inv":
        q = _subst(Sym._from_key(a.args[0]), mapping, memo)
        if q.key() != a.args[0]:
            rep = q.inverse()
    elif a.kind == "fn":
        new = [_subst(Sym._from_key(k), mapping, memo) for k in a.args[1]]
        if any(n.key() != k for n, k in zip(new, a.args[1])):
            rep = Sym.atom(mk_atom("fn", (a.args[0], tuple(n.key() for n in new)), a.sort))
    else:
        x = _subst(Sym._from_key(a.args[0]), mapping, memo)
        if x.key() != a.args[0]:
            rep = getattr(x, a.kind if a.kind != "abs" else "fabs")()
    memo[aid] = rep
    return rep


def ufn(name: str, *args, sort="real") -> Sym:
    """Application of an uninterpreted function (assumed-contract stubs, opaque spec operators)."""
    return Sym.atom(mk_atom("fn", (name, tuple(Sym.coerce(a).key() for a in args)), sort))


# --------------------------------------------------------------------------------------------
# BoolSym
# --------------------------------------------------------------------------------------------
class BoolSym:
    """('lt'|'le'|'eq', polykey) | ('not', k) | ('and', ks) | ('or', ks) | ('const', bool)"""

    __slots__ = ("k", "_z3")

    def __init__(self, k):
        self.k = k
        self._z3 = None

    def key(self):
        return self.k

    @staticmethod
    def _from_key(k):
        return BoolSym(k)

    @staticmethod
    def const(b: bool):
        return BoolSym(("const", bool(b)))

    @staticmethod
    def cmp(op, s: Sym):
        if s.is_const():
            c = s.const_value()
            return BoolSym.const(c < 0 if op == "lt" else c <= 0 if op == "le" else c == 0)
        if op == "eq":
            # canonical sign
            if s.key()[0][1] < 0:
                s = -s
        return BoolSym((op, s.key()))

    def is_const(self):
        return self.k[0] == "const"

    def value(self):
        return self.k[1]

    def __invert__(self):
        k = self.k
        if k[0] == "const":
            return BoolSym.const(not k[1])
        if k[0] == "not":
            return BoolSym(k[1])
        if k[0] == "lt":  # not (s < 0)  ==  -s <= 0
            return BoolSym.cmp("le", -Sym._from_key(k[1]))
        if k[0] == "le":
            return BoolSym.cmp("lt", -Sym._from_key(k[1]))
        return BoolSym(("not", k))

    def __and__(self, o):
        o = as_bool(o)
        if self.is_const():
            return o if self.value() else self
        if o.is_const():
            return self if o.value() else o
        if self.k == o.k:
            return self
        a = self.k[1] if self.k[0] == "and" else (self.k,)
        b = o.k[1] if o.k[0] == "and" else (o.k,)
        return BoolSym(("and", a + tuple(x for x in b if x not in a)))

    __rand__ = __and__

    def __or__(self, o):
        o = as_bool(o)
        if self.is_const():
            return self if self.value() else o
        if o.is_const():
            return o if o.value() else self
        if self.k == o.k:
            return self
        a = self.k[1] if self.k[0] == "or" else (self.k,)
        b = o.k[1] if o.k[0] == "or" else (o.k,)
        return BoolSym(("or", a + tuple(x for x in b if x not in a)))

    __ror__ = __or__

    def implies(self, o):
        return (~self) | as_bool(o)

    def __bool__(self):
        if self.is_const():
            return self.value()
        from . import ctx as _ctx

        return _ctx.branch(self)

    # numpy: bool * float in njit code
    def __mul__(self, o):
        if isinstance(o, np.ndarray) and o.ndim:
            return NotImplemented
        if isinstance(o, BoolSym):
            return self & o
        o = Sym.coerce(o)
        if o is None:
            return NotImplemented
        return ite(self, o, Sym())

    __rmul__ = __mul__

    def __add__(self, o):
        return Sym.coerce(self) + o

    __radd__ = __add__

    def subst(self, mapping, memo=None):
        memo = {} if memo is None else memo
        k = self.k
        if k[0] == "const":
            return self
        if k[0] in ("lt", "le", "eq"):
            s = _subst(Sym._from_key(k[1]), mapping, memo)
            return BoolSym.cmp(k[0], s)
        if k[0] == "not":
            return ~BoolSym(k[1]).subst(mapping, memo)
        parts = [BoolSym(x).subst(mapping, memo) for x in k[1]]
        r = parts[0]
        for q in parts[1:]:
            r = (r & q) if k[0] == "and" else (r | q)
        return r

    def atoms(self):
        k = self.k
        if k[0] == "const":
            return set()
        if k[0] in ("lt", "le", "eq"):
            return Sym._from_key(k[1]).atoms()
        if k[0] == "not":
            return BoolSym(k[1]).atoms()
        out = set()
        for x in k[1]:
            out |= BoolSym(x).atoms()
        return out

    def __repr__(self):
        k = self.k
        if k[0] == "const":
            return str(k[1])
        if k[0] in ("lt", "le", "eq"):
            return f"({Sym._from_key(k[1])} {'<' if k[0]=='lt' else '<=' if k[0]=='le' else '=='} 0)"
        if k[0] == "not":
            return f"!{BoolSym(k[1])}"
        j = " & " if k[0] == "and" else " | "
        return "(" + j.join(str(BoolSym(x)) for x in k[1]) + ")"


def as_bool(x) -> BoolSym:
    if isinstance(x, BoolSym):
        return x
    if isinstance(x, (bool, np.bool_)):
        return BoolSym.const(bool(x))
    raise Unsupported(f"not a boolean: {x!r}")


def ite(c, a, b) -> Sym:
    c = as_bool(c)
    a = Sym.coerce(a)
    b = Sym.coerce(b)
    if c.is_const():
        return a if c.value() else b
    if a.key() == b.key():
        return a
    from . import ctx as _ctx

    d = _ctx.decide(c)  # entailed by the facts of the current path / case scope
    if d is not None:
        return a if d else b
    if _ctx.ST.nonzero_conditions and c.k[0] in ("lt", "le"):
        # unit-level precondition "no branch polynomial is exactly zero" (C14: no face velocity sum is
        # zero): p < 0 and p <= 0 coincide, and ite(p < 0, a, b) == ite(-p < 0, b, a); orient canonically
        p = Sym._from_key(c.k[1])
        if p.key()[0][1] < 0:
            c, a, b = BoolSym(("lt", (-p).key())), b, a
        else:
            c = BoolSym(("lt", p.key()))
        if a.key() == b.key():
            return a
    # canonical sign: ite(c, a, b) == -ite(c, -a, -b); keep the branch with a positive leading coefficient
    lead = a.key()[0][1] if a.p else b.key()[0][1]
    if lead < 0:
        return -ite(c, -a, -b)
    sort = "int" if a.is_int_sorted() and b.is_int_sorted() else "real"
    return Sym.atom(mk_atom("ite", (c.key(), a.key(), b.key()), sort))


def all_of(*bs) -> BoolSym:
    r = BoolSym.const(True)
    for b in bs:
        r = r & as_bool(b)
    return r


def any_of(*bs) -> BoolSym:
    r = BoolSym.const(False)
    for b in bs:
        r = r | as_bool(b)
    return r


def smin(a, b):
    a, b = Sym.coerce(a), Sym.coerce(b)
    return ite(a <= b, a, b)


def smax(a, b):
    a, b = Sym.coerce(a), Sym.coerce(b)
    return ite(a >= b, a, b)
