"""svx.native -- the same contract units executed on the REAL natively compiled code.

Used for (a) replaying a solver counter-model against /repo before a VIOLATION is printed,
(b) the engine self-check / bounded native stand-ins (random seeds).  Runs in its own process
(`python -m svx.native ...`) with real numba and the pystencils 2.0 JIT; the only shim is the
`default_number_float -> default_dtype` rename that pystencils 2.0 needs (svx.boot.boot_native),
plus a numpy interpreter of the assignment list for the few kernels pystencils 2.0 cannot compile
(4-D "vector" fields); the replay file states which kernels were interpreted.
"""
from __future__ import annotations

import json
import math
import re
import sys
import traceback
from fractions import Fraction

import numpy as np

from .contract import KBase, UNITS, cfg_str

INTERPRETED: list = []


def _num(v):
    if isinstance(v, (int, float)):
        return v
    s = str(v)
    try:
        if "/" in s:
            return float(Fraction(s))
        if s.endswith("?"):
            s = s[:-1]
        return float(s) if ("." in s or "e" in s) else int(s)
    except ValueError:
        return None

import os as _os
_REPO = _os.path.realpath(_os.environ.get("SVX_REPO", "/repo")) + "/"


class NativeK(KBase):
    mode = "native"

    def __init__(self, unit_name, props, cfg, model=None, seed=0, tol=1e-9):
        super().__init__(unit_name, props, cfg)
        self.model = {k: _num(v) for k, v in (model or {}).items()}
        self.model = {k: v for k, v in self.model.items() if v is not None}
        self.rng = np.random.default_rng(seed)
        self.tol = tol
        self._called_before: set = set()
        self.clauses: list = []  # (name, ok, detail)
        self.saved: dict = {}
        self.arrays: dict = {}
        self._n = 0
        self._n_interior_bias = model is None or not model
        self.ints = {k: v for k, v in self.model.items() if isinstance(v, int) and "[" not in k}
        # the symbolic machine epsilon chosen by the solver selects the precision of the replay
        if self.model.get("machine_eps", 0) and float(self.model["machine_eps"]) > 1e-10:
            self.real_t = np.float32
            self.tol = 1e-4

    # -- inputs --------------------------------------------------------------------------
    def ext(self, name, lo=1):
        v = self.model.get(name)
        if v is None:
            v = lo + int(self.rng.integers(4, 9))
        v = int(v)
        self.ints[name] = v
        return v

    def int(self, name, lo=None, hi=None):
        v = self.model.get(name)
        if v is None:
            a = lo if lo is not None else 0
            b = hi if hi is not None else a + 5
            v = int(self.rng.integers(a, b + 1))
        self.ints[name] = int(v)
        return int(v)

    def real(self, name, pos=False, nonneg=False):
        v = self.model.get(name)
        if v is None:
            v = float(self.rng.uniform(0.2, 1.5)) if (pos or nonneg) else float(self.rng.normal())
        return float(v)

    def field(self, name, shape, kind="real", init=None):
        shape = tuple(int(s) for s in shape)
        if kind == "complex":
            arr = (self.rng.normal(size=shape) + 1j * self.rng.normal(size=shape)).astype(np.complex128)
        else:
            arr = self.rng.normal(size=shape).astype(self.real_t)
        if init is not None:
            for idx in np.ndindex(*shape):
                arr[idx] = float(init(idx))
        # cells fixed by the model:  "name[i, j]" with index expressions over the model's integers
        pat = re.compile(r"^" + re.escape(name) + r"\[(.*)\]$")
        for k, v in self.model.items():
            m = pat.match(k)
            if not m:
                continue
            try:
                idx = tuple(int(eval(e, {"__builtins__": {}}, dict(self.ints))) for e in m.group(1).split(","))
            except Exception:
                continue  # refers to a Skolem cell not created yet: handled in cell()
            self._set_cell(arr, kind, idx, v)
        # global predicates decided by the solver: "allzero(name|axis=comp,...)" = 1 -> that sub-array is zero
        for k, v in self.model.items():
            m = re.match(r"^(allzero|allclose)\(" + re.escape(name) + r"\|(.*)\)$", k)
            if m and v == 1:
                sl = [slice(None)] * arr.ndim
                for part in [x for x in m.group(2).split(",") if x]:
                    ax, comp = part.split("=")
                    try:
                        sl[int(ax)] = int(comp)
                    except ValueError:
                        pass
                arr[tuple(sl)] = 0 if m.group(1) == "allzero" else arr[tuple(sl)] * 1e-9
        self.arrays[name] = (arr, kind, shape)
        self.saved[id(arr)] = arr.copy()
        return arr

    @staticmethod
    def _set_cell(arr, kind, idx, v):
        try:
            if kind == "complex":
                base, part = idx[:-1], idx[-1]
                z = arr[base]
                arr[base] = complex(v, z.imag) if part == 0 else complex(z.real, v)
            else:
                arr[idx] = v
        except IndexError:
            pass

    def array(self, name, shape, init=None, kind="real"):
        shape = tuple(int(s) for s in shape)
        if kind == "int":
            arr = np.zeros(shape, dtype=np.int64)
        else:
            arr = self.rng.normal(size=shape).astype(self.real_t)
        for idx in np.ndindex(*shape):
            if init is not None:
                arr[idx] = init(idx)
            else:
                v = self.model.get(f"{name}[{', '.join(map(str, idx))}]")
                if v is not None:
                    arr[idx] = v
        self.saved[id(arr)] = arr.copy()
        self.arrays[name] = (arr, kind, shape)
        return arr

    def aval(self, arr, idx):
        return float(arr[tuple(idx)])

    def aold(self, arr, idx):
        return float(self.saved[id(arr)][tuple(idx)])

    def array_unchanged(self, clause, arr, props=None):
        self.unchanged(clause, arr, props)

    def cell(self, shape, name="c", margin=0):
        self._n += 1
        c = []
        for a, n in enumerate(shape):
            key = f"{name}{self._n}_{a}"
            v = self.model.get(key)
            if v is None:
                if int(n) - margin <= margin:
                    self.clauses.append(("requires", None, "grid too small for an interior cell"))
                    raise _PreconditionUnmet()
                lo, hi = margin, int(n) - margin
                if self._n_interior_bias and hi - lo > 4 and self.rng.random() < 0.6:
                    lo, hi = lo + 2, hi - 2  # bias the sample towards cells whose stencils are interior
                v = int(self.rng.integers(lo, hi))
            self.ints[key] = int(v)
            c.append(int(v))
        # model cells that mention this Skolem cell
        for nm, (arr, kind, _shape) in self.arrays.items():
            pat = re.compile(r"^" + re.escape(nm) + r"\[(.*)\]$")
            for k, v in self.model.items():
                m = pat.match(k)
                if m:
                    try:
                        idx = tuple(int(eval(e, {"__builtins__": {}}, dict(self.ints))) for e in m.group(1).split(","))
                    except Exception:
                        continue
                    if np.array_equal(arr, self.saved[id(arr)], equal_nan=True):  # only before the code ran
                        self._set_cell(arr, kind, idx, v)
                        self.saved[id(arr)] = arr.copy()
        return tuple(c)

    def requires(self, cond):
        if not bool(cond):
            self.clauses.append(("requires", None, "precondition not met by this input (clauses below are void)"))
            raise _PreconditionUnmet()

    def havoc(self, arr):
        arr[...] = self.rng.normal(size=arr.shape).astype(arr.dtype) * 3.0 + 1.0

    def case(self, guard):
        if bool(guard):
            yield True

    # -- observation ---------------------------------------------------------------------
    @staticmethod
    def _get(arr, c, part):
        c = tuple(int(i) for i in c)
        if any(i < 0 or i >= n for i, n in zip(c, arr.shape)):
            return float("nan")  # outside the array: only meaningful under a guard that excludes it
        v = arr[c]
        return float(v.real if part == "re" else v.imag) if part else float(v)

    def value(self, arr, c, part=None):
        return self._get(arr, c, part)

    def old(self, arr, c, part=None):
        return self._get(self.saved[id(arr)], c, part)

    def _name(self, clause):
        cs = cfg_str(self.cfg)
        return f"{self.unit}/{clause}" + (f"[{cs}]" if cs else "")

    def ensures(self, clause, cond, when=True, props=None, note=""):
        if not bool(when):
            return
        self.clauses.append((self._name(clause), bool(cond), ""))

    def ensures_eq(self, clause, lhs, rhs, when=True, props=None, note=""):
        if not bool(when):
            return
        lhs, rhs = float(lhs), float(rhs)
        ok = abs(lhs - rhs) <= self.tol * (1.0 + abs(lhs) + abs(rhs)) or (math.isnan(lhs) and math.isnan(rhs))
        self.clauses.append((self._name(clause), ok, f"observed {lhs!r} expected {rhs!r}"))

    def signature(self, clause, lhs, rhs, when=True, props=None):
        pass

    def signature_bool(self, clause, cond, props=None):
        pass

    def unchanged(self, clause, arr, props=None):
        ok = np.array_equal(arr, self.saved[id(arr)], equal_nan=True)
        self.clauses.append((self._name(clause), bool(ok), "input array modified" if not ok else ""))

    def _perturbed(self, x):
        """an array of the same shape / dtype with slightly different content (integer arrays unchanged)"""
        if isinstance(x, np.ndarray) and x.dtype.kind in "fc" and x.size:
            noise = self.rng.normal(size=x.shape)
            return (x * (1.0 + 1e-3 * noise) + 1e-3 * self.rng.normal(size=x.shape)).astype(x.dtype)
        if isinstance(x, np.ndarray):
            return x.copy()
        return x

    def run(self, fn, *a, **kw):
        # the real closure; arrays created *after* earlier cells were drawn must be re-saved
        for nm, (arr, _k, _s) in self.arrays.items():
            self.saved[id(arr)] = arr.copy()
        # call history: the first time a generated closure is used in this run it has ALREADY been called once, on other
        # arrays of the same shapes with slightly different content (a closure that remembers anything from an earlier
        # call -- a cached difference, a lazily allocated and never refreshed scratch field -- then answers wrongly)
        if id(fn) not in self._called_before:
            self._called_before.add(id(fn))
            try:
                fn(*[self._perturbed(x) for x in a], **{k: self._perturbed(v) for k, v in kw.items()})
            except Exception:  # noqa: BLE001  -- the earlier call is only history; the call under contract decides
                pass
        return fn(*a, **kw)

    def expect_raises(self, clause, exc_types, fn, *a, props=None, **kw):
        try:
            fn(*a, **kw)
        except exc_types as e:
            self.clauses.append((self._name(clause), True, f"raised {type(e).__name__}"))
            return True
        self.clauses.append((self._name(clause), False, "returned normally"))
        return False


class _PreconditionUnmet(Exception):
    pass


def run_unit_native(name, cfg, model=None, seed=0):
    """-> dict(clauses=[(name, ok, detail)], exception=str|None, interpreted=[...])"""
    u = UNITS[name]
    K = NativeK(name, u["props"], cfg, model=model, seed=seed)
    exc = None
    try:
        u["fn"](K, **cfg)
    except _PreconditionUnmet:
        pass
    except Exception as e:
        frames = traceback.extract_tb(e.__traceback__)
        in_repo = any(f.filename.startswith(_REPO) for f in frames)
        exc = dict(type=type(e).__name__, msg=str(e)[:500], in_repo=in_repo,
                   tb="".join(traceback.format_exception(type(e), e, e.__traceback__))[-2000:])
        if in_repo:
            K.clauses.append((K._name("no_exception"), False, f"real code raised {type(e).__name__}: {e}"[:600]))
        else:  # a defect of the contract / harness in native mode: never evidence about the code
            K.clauses.append((K._name("harness_error"), None, f"{type(e).__name__}: {e}"[:600]))
    return dict(clauses=K.clauses, exception=exc, interpreted=sorted(set(INTERPRETED)))


def main(argv):
    import warnings
    warnings.filterwarnings("ignore")
    """python -m svx.native <jobfile.json> : {unit, cfg, model, seeds:[...]} -> JSON on stdout"""
    from . import boot

    boot.boot_native()
    from . import loader

    loader.load_contracts()
    job = json.load(open(argv[1]))
    out = []
    for seed in job.get("seeds", [0]):
        r = run_unit_native(job["unit"], job["cfg"], model=job.get("model"), seed=seed)
        r["seed"] = seed
        out.append(r)
    json.dump(out, sys.stdout)


if __name__ == "__main__":
    main(sys.argv)
